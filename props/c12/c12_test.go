// C12 A bsdiff series applied to the old file yields the new file.
package c12

import (
	"bytes"
	"fmt"
	"io"
	"runtime"
	"sync"
	"testing"

	"verif/harness/h"

	"github.com/golang/protobuf/proto"
	"github.com/itchio/wharf/bsdiff"
	"github.com/itchio/wharf/bsdiff/lrufile"
	"pgregory.net/rapid"
)

type Blob struct {
	Lit string    `json:"lit,omitempty"`
	C   h.Content `json:"c,omitempty"`
}

func (b Blob) Bytes() []byte {
	if b.C != nil {
		return b.C.Bytes()
	}
	return []byte(b.Lit)
}

type Spec struct {
	Old    Blob `json:"old"`
	New    Blob `json:"new"`
	NewAll int  `json:"new_all,omitempty"` // >0 (journal entries of the enumeration): every new string over {a,b} up to this length
	Parts  int  `json:"parts"`
	Conc   int  `json:"conc,omitempty"`
	Split  int  `json:"split,omitempty"` // split point in the control list (mod number of controls)
	Procs  int  `json:"procs,omitempty"`
	Warm   bool `json:"warm,omitempty"` // the DiffContext has diffed another pair before (generated cases; literal cases: enumWarm)
}

// diff runs the differ. warm: the DiffContext is not new - it has just diffed another pair (the same two
// strings with their roles swapped), the way rediff uses ONE context for all the files of a patch.
func diff(old, nw []byte, parts, conc int, warm bool) ([]*bsdiff.Control, error) {
	var ctrls []*bsdiff.Control
	dc := &bsdiff.DiffContext{Partitions: parts, SuffixSortConcurrency: conc}
	if warm && (caseKey(old, nw)>>1)%2 == 1 {
		// the other kind of earlier work (decided from the case alone): an unrelated pair, somewhat longer than
		// the case, whose series adds non-zero bytes all along - whatever the context keeps between calls is then
		// neither empty nor zero
		l := len(nw) + 64
		if l < 256 {
			l = 256
		}
		so := h.Content{{Src: 11, Off: 17, Len: l}}.Bytes()
		sn := append([]byte{}, so...)
		for i := 0; i < len(sn); i += 7 {
			sn[i]++
		}
		if err := dc.Do(bytes.NewReader(so), bytes.NewReader(sn), func(proto.Message) error { return nil }, h.Quiet()); err != nil {
			return nil, fmt.Errorf("warm-up diff (unrelated pair): %w", err)
		}
	} else if warm {
		if err := dc.Do(bytes.NewReader(nw), bytes.NewReader(old), func(proto.Message) error { return nil }, h.Quiet()); err != nil {
			return nil, fmt.Errorf("warm-up diff (roles swapped): %w", err)
		}
	}
	// Do takes io.Readers: "old" and "new" are whatever remains to be read. In two cases out of three (decided
	// from the case alone) the readers are seekable ones handed over at a non-zero position, behind a header
	var or, nr io.Reader = bytes.NewReader(old), bytes.NewReader(nw)
	if adv := []int{0, 5, 1000}[(len(old)+2*len(nw))%3]; adv > 0 {
		or, nr = advanced(old, adv), advanced(nw, adv+3)
	}
	err := dc.Do(or, nr, func(m proto.Message) error {
		ctrls = append(ctrls, proto.Clone(m).(*bsdiff.Control))
		return nil
	}, h.Quiet())
	return ctrls, err
}

// advanced returns a seekable reader over "header + data", positioned behind the header.
func advanced(data []byte, hdr int) io.Reader {
	b := make([]byte, 0, hdr+len(data))
	for i := 0; i < hdr; i++ {
		b = append(b, byte('H'+i%5))
	}
	r := bytes.NewReader(append(b, data...))
	r.Seek(int64(hdr), io.SeekStart)
	return r
}

// refApply is the reference applier: direct indexing into old.
func refApply(old []byte, ctrls []*bsdiff.Control) (out []byte, offsets []int64, msg string) {
	pos := int64(0)
	for i, c := range ctrls {
		offsets = append(offsets, pos)
		if c.Eof {
			if i != len(ctrls)-1 {
				return nil, nil, fmt.Sprintf("end-of-series message at position %d of %d, not last", i, len(ctrls))
			}
			return out, offsets, ""
		}
		if pos < 0 || pos+int64(len(c.Add)) > int64(len(old)) {
			return nil, nil, fmt.Sprintf("control %d adds %d bytes at old offset %d, outside the old string of %d bytes", i, len(c.Add), pos, len(old))
		}
		for j, a := range c.Add {
			out = append(out, a+old[pos+int64(j)])
		}
		pos += int64(len(c.Add))
		out = append(out, c.Copy...)
		pos += c.Seek
	}
	return nil, nil, "the differ did not end the series with an end-of-series message"
}

func feeder(ctrls []*bsdiff.Control) bsdiff.ReadMessageFunc {
	i := 0
	return func(m proto.Message) error {
		if i >= len(ctrls) {
			return io.EOF
		}
		m.Reset()
		proto.Merge(m, ctrls[i])
		i++
		return nil
	}
}

var pctx = bsdiff.NewPatchContext()

type yieldBuffer struct{ buf bytes.Buffer }

func (y *yieldBuffer) Write(p []byte) (int, error) {
	runtime.Gosched()
	n, err := y.buf.Write(p)
	runtime.Gosched()
	return n, err
}

type verdict struct {
	fail  string
	nctrl int
	seeks int
}

func judge(old, nw []byte, parts, conc, split int, full bool, warm bool) (v verdict) {
	ctrls, err := diff(old, nw, parts, conc, warm)
	if err != nil {
		v.fail = fmt.Sprintf("differ failed: %v", err)
		return
	}
	out, offsets, msg := refApply(old, ctrls)
	if msg != "" {
		v.fail = msg
		return
	}
	v.nctrl = len(ctrls) - 1
	sum := 0
	for _, c := range ctrls {
		sum += len(c.Add) + len(c.Copy)
		if c.Seek != 0 {
			v.seeks++
		}
	}
	if sum != len(nw) {
		v.fail = fmt.Sprintf("sum of add+copy lengths is %d, new string has %d bytes", sum, len(nw))
		return
	}
	if !bytes.Equal(out, nw) {
		v.fail = fmt.Sprintf("reference application of the controls gives %d bytes, differing from the new string (%d bytes) at %d", len(out), len(nw), firstDiff(out, nw))
		return
	}
	ob := new(bytes.Buffer)
	if err := pctx.Patch(bytes.NewReader(old), ob, int64(len(nw)), feeder(ctrls)); err != nil {
		v.fail = fmt.Sprintf("PatchContext.Patch failed on the differ's own output: %v", err)
		return
	}
	if !bytes.Equal(ob.Bytes(), nw) {
		v.fail = fmt.Sprintf("PatchContext.Patch gives %d bytes, differing from the new string (%d bytes) at %d", ob.Len(), len(nw), firstDiff(ob.Bytes(), nw))
		return
	}
	if full && v.nctrl > 0 {
		// two independent PatchContexts applying the series at the same time (two files patched by two workers):
		// each must still produce the new string; its writer yields between writes so that the two interleave
		var wg sync.WaitGroup
		res := make([]string, 2)
		for k := 0; k < 2; k++ {
			wg.Add(1)
			go func(k int) {
				defer wg.Done()
				ob := &yieldBuffer{}
				if err := bsdiff.NewPatchContext().Patch(bytes.NewReader(old), ob, int64(len(nw)), feeder(ctrls)); err != nil {
					res[k] = fmt.Sprintf("one of two PatchContexts applying at the same time failed: %v", err)
				} else if !bytes.Equal(ob.buf.Bytes(), nw) {
					res[k] = fmt.Sprintf("one of two PatchContexts applying at the same time gives %d bytes, differing from the new string (%d bytes) at %d", ob.buf.Len(), len(nw), firstDiff(ob.buf.Bytes(), nw))
				}
			}(k)
		}
		wg.Wait()
		for _, m := range res {
			if m != "" {
				v.fail = m
				return
			}
		}
	}
	if full && v.nctrl > 0 {
		// apply controls j.. from the recorded old offset in a brand-new context
		j := split % v.nctrl
		if j < 0 {
			j = -j
		}
		head := new(bytes.Buffer)
		pc1 := bsdiff.NewPatchContext()
		ipc, err := pc1.NewIndividualPatchContext(bytes.NewReader(old), 0, head)
		if err != nil {
			v.fail = "NewIndividualPatchContext: " + err.Error()
			return
		}
		for i := 0; i < j; i++ {
			if err := ipc.Apply(ctrls[i]); err != nil {
				v.fail = fmt.Sprintf("Apply control %d: %v", i, err)
				return
			}
		}
		if ipc.OldOffset != offsets[j] {
			v.fail = fmt.Sprintf("after %d controls OldOffset is %d, reference says %d", j, ipc.OldOffset, offsets[j])
			return
		}
		tail := new(bytes.Buffer)
		pc2 := bsdiff.NewPatchContext()
		ipc2, err := pc2.NewIndividualPatchContext(bytes.NewReader(old), ipc.OldOffset, tail)
		if err != nil {
			v.fail = "NewIndividualPatchContext: " + err.Error()
			return
		}
		for i := j; i < v.nctrl; i++ {
			if err := ipc2.Apply(ctrls[i]); err != nil {
				v.fail = fmt.Sprintf("Apply control %d after resuming at control %d: %v", i, j, err)
				return
			}
		}
		if !bytes.Equal(append(head.Bytes(), tail.Bytes()...), nw) {
			v.fail = fmt.Sprintf("applying controls %d.. from the saved old offset %d gives a different remainder", j, ipc.OldOffset)
			return
		}
	}
	return
}

func firstDiff(a, b []byte) int {
	n := len(a)
	if len(b) < n {
		n = len(b)
	}
	for i := 0; i < n; i++ {
		if a[i] != b[i] {
			return i
		}
	}
	return n
}

func allStrings(alpha, maxLen int) [][]byte {
	var out [][]byte
	var rec func(cur []byte)
	rec = func(cur []byte) {
		out = append(out, append([]byte{}, cur...))
		if len(cur) == maxLen {
			return
		}
		for a := 0; a < alpha; a++ {
			rec(append(cur, byte('a'+a)))
		}
	}
	rec(nil)
	return out
}

// enumWarm decides, from the case alone, whether an enumerated case runs on a used DiffContext (half of them)
func enumWarm(old, nw []byte) bool { return caseKey(old, nw)%2 == 1 }

// caseKey is a small number computed from the case alone (lengths and the first bytes), used to spread
// harness choices over the cases without drawing anything: identical pairs get both parities too
func caseKey(old, nw []byte) int {
	k := len(old)*3 + len(nw)
	for i := 0; i < len(old) && i < 64; i++ {
		k += int(old[i]) * (i + 1)
	}
	return k
}

func check(s Spec) h.Result {
	if s.Procs > 0 {
		defer runtime.GOMAXPROCS(runtime.GOMAXPROCS(s.Procs))
	}
	old := s.Old.Bytes()
	if s.NewAll > 0 {
		for _, nw := range allStrings(2, s.NewAll) {
			if v := judge(old, nw, s.Parts, s.Conc, 0, false, enumWarm(old, nw)); v.fail != "" {
				return h.Failf("old=%q new=%q partitions=%d: %s", old, nw, s.Parts, v.fail)
			}
		}
		return h.Result{}
	}
	nw := s.New.Bytes()
	// (the warm-up doubles the cost: generated cases above 512 KiB run on a new context)
	warm := (s.Warm && len(old)+len(nw) <= 1<<19) || (s.New.C == nil && s.Old.C == nil && enumWarm(old, nw))
	v := judge(old, nw, s.Parts, s.Conc, s.Split, true, warm)
	cl := []string{fmt.Sprintf("partitions:%d", s.Parts)}
	if warm {
		cl = append(cl, "differ:context-used-before")
	}
	if len(old) == 0 {
		cl = append(cl, "old:empty")
	}
	if len(nw) == 0 {
		cl = append(cl, "new:empty")
	}
	if s.Parts > 0 && len(old) < s.Parts {
		cl = append(cl, "old:shorter-than-partitions")
	}
	if s.Parts > 0 && len(nw) > 0 && len(nw) < s.Parts {
		cl = append(cl, "new:shorter-than-partitions")
	}
	if len(nw) > 1<<20 || len(old) > 1<<20 {
		cl = append(cl, "size:>1MiB")
	}
	if v.fail != "" {
		return h.Result{Fail: v.fail, Classes: cl}
	}
	return h.Result{Classes: cl, NonTrivial: v.nctrl >= 2 && v.seeks >= 1}
}

// (a) exhaustive enumeration; journals one entry per (old, partitions)
func TestEnum(t *testing.T) {
	ev := h.NewEvidence("C12", "enum")
	ev.Exhaustive = true
	defer ev.Write()
	maxOld, maxNew, maxParts := 6, 6, 3
	if h.Thorough() {
		maxOld, maxNew, maxParts = 8, 8, 4
	}
	ev.Spaces = append(ev.Spaces, fmt.Sprintf("sigma2,old<=%d,new<=%d,partitions0..%d", maxOld, maxNew, maxParts))
	olds := allStrings(2, maxOld)
	news := allStrings(2, maxNew)
	shard, nsh := h.Shard(), h.NShards()
	for oi, old := range olds {
		if oi%nsh != shard {
			continue
		}
		for parts := 0; parts <= maxParts; parts++ {
			h.WriteCurrent("C12", "enum", Spec{Old: Blob{Lit: string(old)}, NewAll: maxNew, Parts: parts})
			for _, nw := range news {
				v := judge(old, nw, parts, 0, 0, false, enumWarm(old, nw))
				if v.fail != "" {
					spec := Spec{Old: Blob{Lit: string(old)}, New: Blob{Lit: string(nw)}, Parts: parts}
					ev.Failures++
					h.WriteFail("C12", "enum", spec, v.fail)
					t.Fatalf("old=%q new=%q partitions=%d: %s", old, nw, parts, v.fail)
				}
				ev.CountNT(nil, v.nctrl >= 2 && v.seeks >= 1, func() interface{} {
					return Spec{Old: Blob{Lit: string(old)}, New: Blob{Lit: string(nw)}, Parts: parts}
				})
			}
		}
	}
	h.ClearCurrent("enum")
}

// (b)+(c) random pairs
func genBlob(t *rapid.T, label string, src int) Blob {
	var n int
	switch rapid.IntRange(0, 9).Draw(t, label+"-size-kind") {
	case 0:
		n = 0
	case 1, 2:
		n = rapid.IntRange(0, 20).Draw(t, label+"-tiny")
	case 3, 4, 5:
		n = rapid.IntRange(0, 5000).Draw(t, label+"-small")
	case 6, 7, 8:
		n = rapid.IntRange(0, 300000).Draw(t, label+"-medium")
	default:
		n = rapid.IntRange(1<<20, 3<<20).Draw(t, label+"-large")
	}
	if n == 0 {
		return Blob{C: h.Content{}}
	}
	if rapid.IntRange(0, 2).Draw(t, label+"-periodic") == 0 {
		p := rapid.SampledFrom([]int{1, 2, 5, 64, 1000}).Draw(t, label+"-period")
		if p == 1 && n > 32768 {
			p = 2 // long runs of one byte value are bsdiff's quadratic worst case (seconds per 64KiB): keep them short
		}
		return Blob{C: h.Content{{Src: 100 + p, Len: n}}}
	}
	return Blob{C: h.Content{{Src: src, Len: n}}}
}

var propRandom = h.Prop[Spec]{
	ID: "C12", Name: "random",
	Gen: func(t *rapid.T) Spec {
		s := Spec{Old: genBlob(t, "old", 1)}
		switch rapid.IntRange(0, 3).Draw(t, "relation") {
		case 0: // unrelated
			s.New = genBlob(t, "new", 2)
		default: // edited copy of old: bsdiff's home turf
			c := h.EditContent(t, h.Concat(s.Old.C), rapid.IntRange(0, 6).Draw(t, "nedits"), nil)
			if rapid.IntRange(0, 3).Draw(t, "sprinkle") == 0 && c.Len() > 0 {
				// many single-byte changes => long add strings with non-zero bytes
				n := c.Len()
				for i := 0; i < 8; i++ {
					off := rapid.IntRange(0, n-1).Draw(t, "sprinkle-off")
					c = c.XorRange(off, off+1, 0x21)
				}
			}
			s.New = Blob{C: c}
		}
		if s.New.C == nil {
			s.New.C = h.Content{}
		}
		s.Parts = rapid.IntRange(0, 16).Draw(t, "partitions")
		s.Conc = rapid.IntRange(-1, 4).Draw(t, "concurrency")
		s.Split = rapid.IntRange(0, 1000).Draw(t, "split")
		s.Procs = rapid.SampledFrom([]int{0, 1, 2, 16}).Draw(t, "gomaxprocs")
		s.Warm = rapid.IntRange(0, 2).Draw(t, "used-context") == 0
		return s
	},
	Check: check,
}

func TestRandom(t *testing.T) { h.Run(t, propRandom) }

// ---------------------------------------------------------------------------
// (d) lrufile state machine against a []byte model

type LruOp struct {
	Op     string `json:"op"` // seek | read | reset
	Whence int    `json:"whence,omitempty"`
	Off    int    `json:"off,omitempty"`
	N      int    `json:"n,omitempty"`
	Size   int    `json:"size,omitempty"`
}

type LruSpec struct {
	Chunk   int     `json:"chunk"`
	Entries int     `json:"entries"`
	Size    int     `json:"size"`
	Ops     []LruOp `json:"ops"`
}

func lruContent(n int) []byte {
	if n == 0 {
		return []byte{}
	}
	return h.Content{{Src: 4, Off: n * 3, Len: n}}.Bytes()
}

func checkLru(s LruSpec) h.Result {
	lf, err := lrufile.New(int64(s.Chunk), s.Entries)
	if err != nil {
		return h.Result{Skip: "lrufile.New rejects the geometry: " + err.Error()}
	}
	content := lruContent(s.Size)
	if err := lf.Reset(bytes.NewReader(content)); err != nil {
		return h.Failf("Reset: %v", err)
	}
	pos := int64(0)
	cl := []string{}
	evictions := false
	touched := map[int64]bool{}
	for i, o := range s.Ops {
		switch o.Op {
		case "reset":
			content = lruContent(o.Size)
			if err := lf.Reset(bytes.NewReader(content)); err != nil {
				return h.Failf("op %d Reset: %v", i, err)
			}
			pos = 0
			touched = map[int64]bool{}
			cl = append(cl, "op:reset")
		case "seek":
			var want int64
			switch o.Whence {
			case io.SeekStart:
				want = int64(o.Off)
			case io.SeekCurrent:
				want = pos + int64(o.Off)
			case io.SeekEnd:
				want = int64(len(content)) + int64(o.Off)
			}
			got, err := lf.Seek(int64(o.Off), o.Whence)
			if want < 0 || want > int64(len(content)) {
				// out of range: must error or clamp consistently; follow what it says
				if err == nil {
					if got < 0 || got > int64(len(content)) {
						return h.Failf("op %d: out-of-range seek to %d accepted and reports offset %d outside [0,%d]", i, want, got, len(content))
					}
				}
				cl = append(cl, "seek:out-of-range")
				cur, err2 := lf.Seek(0, io.SeekCurrent)
				if err2 != nil {
					return h.Failf("op %d: Seek(0, current) after a rejected seek failed: %v", i, err2)
				}
				pos = cur
				continue
			}
			if err != nil || got != want {
				return h.Failf("op %d: seek(whence %d, %d) from %d in a %d-byte file: got %d, %v; the model says %d", i, o.Whence, o.Off, pos, len(content), got, err, want)
			}
			pos = want
		case "read":
			buf := make([]byte, o.N)
			n, err := lf.Read(buf)
			avail := int64(len(content)) - pos
			wantN := int64(o.N)
			if wantN > avail {
				wantN = avail
			}
			if int64(n) != wantN {
				return h.Failf("op %d: read of %d at %d in a %d-byte file returned %d bytes (err %v); the model says %d", i, o.N, pos, len(content), n, err, wantN)
			}
			if !bytes.Equal(buf[:n], content[pos:pos+int64(n)]) {
				return h.Failf("op %d: read of %d at %d returned wrong bytes (first difference at %d)", i, o.N, pos, firstDiff(buf[:n], content[pos:pos+int64(n)]))
			}
			if err != nil && err != io.EOF {
				return h.Failf("op %d: read error %v", i, err)
			}
			if err == io.EOF && int64(n) < int64(o.N) && pos+int64(n) != int64(len(content)) {
				return h.Failf("op %d: EOF reported at %d, file has %d bytes", i, pos+int64(n), len(content))
			}
			if err == nil && n < o.N {
				return h.Failf("op %d: short read (%d of %d) without EOF", i, n, o.N)
			}
			for c := pos / int64(s.Chunk); c <= (pos+int64(n))/int64(s.Chunk); c++ {
				touched[c] = true
			}
			if len(touched) > s.Entries {
				evictions = true
			}
			pos += int64(n)
		}
	}
	if evictions {
		cl = append(cl, "cache:evictions")
	}
	return h.Result{Classes: cl, NonTrivial: evictions, Sub: len(s.Ops)}
}

var propLru = h.Prop[LruSpec]{
	ID: "C12", Name: "lrufile",
	Gen: func(t *rapid.T) LruSpec {
		s := LruSpec{Chunk: rapid.IntRange(1, 70).Draw(t, "chunk"), Entries: rapid.IntRange(1, 8).Draw(t, "entries"), Size: rapid.IntRange(0, 500).Draw(t, "size")}
		size := s.Size
		n := rapid.IntRange(1, 40).Draw(t, "nops")
		for i := 0; i < n; i++ {
			switch rapid.IntRange(0, 9).Draw(t, "op") {
			case 0:
				size = rapid.IntRange(0, 500).Draw(t, "reset-size")
				s.Ops = append(s.Ops, LruOp{Op: "reset", Size: size})
			case 1, 2, 3, 4:
				w := rapid.SampledFrom([]int{io.SeekStart, io.SeekStart, io.SeekCurrent, io.SeekEnd}).Draw(t, "whence")
				var off int
				switch w {
				case io.SeekStart:
					off = rapid.IntRange(-2, size+2).Draw(t, "off")
				case io.SeekCurrent:
					off = rapid.IntRange(-size-2, size+2).Draw(t, "off")
				default:
					off = rapid.IntRange(-size-2, 2).Draw(t, "off")
				}
				s.Ops = append(s.Ops, LruOp{Op: "seek", Whence: w, Off: off})
			default:
				s.Ops = append(s.Ops, LruOp{Op: "read", N: rapid.OneOf(rapid.IntRange(0, 10), rapid.IntRange(0, 600)).Draw(t, "n")})
			}
		}
		return s
	},
	Check:     checkLru,
	NoJournal: true,
}

func TestLru(t *testing.T) { h.Run(t, propLru) }

// ---------------------------------------------------------------------------
// (e) hand-built valid control series over an old file larger than the patcher's 32MiB cache

type FarSpec struct {
	OldMiB int     `json:"old_mib"`
	Steps  []FarOp `json:"steps"`
}

type FarOp struct {
	At   int `json:"at"`   // absolute old offset to add from (the seek is derived)
	Add  int `json:"add"`  // bytes added (diffed against old)
	Copy int `json:"copy"` // fresh bytes
}

func checkFar(s FarSpec) h.Result {
	old := h.Content{{Src: 5, Len: s.OldMiB << 20}}.Bytes()
	var ctrls []*bsdiff.Control
	pos := int64(0)
	for i, st := range s.Steps {
		at := int64(st.At)
		if at+int64(st.Add) > int64(len(old)) {
			at = int64(len(old)) - int64(st.Add)
		}
		if at < 0 {
			return h.Result{Skip: "step does not fit"}
		}
		if at != pos {
			if len(ctrls) == 0 {
				ctrls = append(ctrls, &bsdiff.Control{})
			}
			ctrls[len(ctrls)-1].Seek += at - pos
			pos = at
		}
		add := make([]byte, st.Add)
		for j := range add {
			add[j] = byte(j*7 + i)
		}
		cp := h.Content{{Src: 6, Off: i * 1000, Len: st.Copy}}.Bytes()
		ctrls = append(ctrls, &bsdiff.Control{Add: add, Copy: cp})
		pos += int64(st.Add)
	}
	ctrls = append(ctrls, &bsdiff.Control{Eof: true})
	want, _, msg := refApply(old, ctrls)
	if msg != "" {
		return h.Result{Skip: "harness built an invalid series: " + msg}
	}
	ob := new(bytes.Buffer)
	if err := bsdiff.NewPatchContext().Patch(bytes.NewReader(old), ob, int64(len(want)), feeder(ctrls)); err != nil {
		return h.Failf("Patch failed on a valid series over a %d MiB old file: %v", s.OldMiB, err)
	}
	if !bytes.Equal(ob.Bytes(), want) {
		return h.Failf("Patch over a %d MiB old file (beyond the 32MiB read cache) differs from the reference applier at %d", s.OldMiB, firstDiff(ob.Bytes(), want))
	}
	return h.Result{NonTrivial: len(s.Steps) >= 2, Classes: []string{"old:>32MiB-cache"}}
}

var propFar = h.Prop[FarSpec]{
	ID: "C12", Name: "farseeks",
	Gen: func(t *rapid.T) FarSpec {
		s := FarSpec{OldMiB: 40}
		n := rapid.IntRange(2, 12).Draw(t, "nsteps")
		for i := 0; i < n; i++ {
			s.Steps = append(s.Steps, FarOp{
				At:   rapid.OneOf(rapid.IntRange(0, 40<<20), rapid.SampledFrom([]int{0, 32<<20 - 1, 32 << 20, 32<<20 + 1, 40<<20 - 1})).Draw(t, "at"),
				Add:  rapid.OneOf(rapid.IntRange(0, 100), rapid.IntRange(0, 3<<20), rapid.SampledFrom([]int{32768, 32769, 65536})).Draw(t, "add"),
				Copy: rapid.IntRange(0, 2000).Draw(t, "copy"),
			})
		}
		return s
	},
	Check: checkFar,
}

func TestFar(t *testing.T) { h.Run(t, propFar) }

func TestReplay(t *testing.T) {
	h.ReplayMain(t, map[string]h.Replayer{
		"enum": h.ReplayerOf(propRandom), "random": h.ReplayerOf(propRandom),
		"lrufile": h.ReplayerOf(propLru), "farseeks": h.ReplayerOf(propFar),
	})
}
