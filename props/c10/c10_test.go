// C10 Malformed patch/signature/overlay streams yield an error, never a crash.
package c10

import (
	"bytes"
	"context"
	"encoding/gob"
	"fmt"
	"github.com/itchio/savior"
	"io"
	"os"
	"path/filepath"
	"reflect"
	"sync"
	"testing"
	"time"

	"verif/harness/h"

	"github.com/golang/protobuf/proto"
	"github.com/itchio/lake/pools/fspool"
	"github.com/itchio/lake/tlc"
	"github.com/itchio/wharf/bsdiff"
	"github.com/itchio/wharf/pwr"
	"github.com/itchio/wharf/pwr/bowl"
	"github.com/itchio/wharf/pwr/overlay"
	"github.com/itchio/wharf/pwr/patcher"
	"github.com/itchio/wharf/pwr/rediff"
	"github.com/itchio/wharf/wire"
	"pgregory.net/rapid"
)

// ---------------------------------------------------------------------------
// corpus of valid streams (small build pairs)

type corpusEntry struct {
	name           string
	pair           h.Pair
	oldDir, newDir string
	plain, opt     []byte // patches, uncompressed
	sig            []byte
	overlayOld     []byte
	overlay        []byte
	nOld, nNew     int
}

var F = func(p string, c ...h.Piece) h.Entry { return h.Entry{Path: p, Kind: h.KFile, C: h.Content(c)} }

func corpusPairs() []h.Pair {
	a := h.Content{{Src: 1, Len: 3*h.BS + 10}}
	a2 := h.Concat(a.Slice(0, 70000), h.Content{{Src: 7, Len: 50}}, a.Slice(70000, a.Len()))
	b := h.Content{{Src: 2, Len: 100}}
	return []h.Pair{
		{ // edits + rename + new + empty + symlink + dir
			Old: h.Tree{F("a", a...), F("b", b...), F("c"), {Path: "d", Kind: h.KDir}, {Path: "l", Kind: h.KLink, Dest: "a"}},
			New: h.Tree{F("a", a2...), F("b2", b...), F("c"), {Path: "d", Kind: h.KDir}, F("e", h.Piece{Src: 3, Len: 200}), {Path: "l", Kind: h.KLink, Dest: "b2"}},
		},
		{ // tiny
			Old: h.Tree{F("x", h.Piece{Src: 1, Len: 10})},
			New: h.Tree{F("x", h.Piece{Src: 1, Len: 8}, h.Piece{Src: 4, Len: 4})},
		},
		{ // exact multiples, block reuse across files, patched file at same path (bsdiff when optimized)
			Old: h.Tree{F("m", h.Piece{Src: 5, Len: 2 * h.BS}), F("n", h.Piece{Src: 6, Len: h.BS}), F("z", h.Piece{Src: 9, Len: 5000})},
			New: h.Tree{F("m", h.Piece{Src: 6, Len: h.BS}, h.Piece{Src: 5, Len: h.BS}), F("n", h.Piece{Src: 6, Len: h.BS}), F("z", h.Piece{Src: 9, Len: 2500}, h.Piece{Src: 9, Off: 2500, Len: 2500, Xor: 1})},
		},
	}
}

var (
	corpusOnce sync.Once
	corpus     []*corpusEntry
	corpusDir  string
	corpusErr  error
)

func getCorpus() ([]*corpusEntry, error) {
	corpusOnce.Do(func() {
		corpusDir = h.TempDir("c10corpus")
		for i, p := range corpusPairs() {
			e := &corpusEntry{name: fmt.Sprintf("pair%d", i), pair: p}
			e.oldDir = filepath.Join(corpusDir, e.name, "old")
			e.newDir = filepath.Join(corpusDir, e.name, "new")
			if corpusErr = p.Old.Write(e.oldDir); corpusErr != nil {
				return
			}
			if corpusErr = p.New.Write(e.newDir); corpusErr != nil {
				return
			}
			df, err := h.Diff(e.oldDir, e.newDir, h.Comp{}, nil)
			if err != nil {
				corpusErr = err
				return
			}
			e.plain, e.sig = df.Patch, df.Sig
			e.nOld, e.nNew = len(df.Old.Files), len(df.New.Files)
			e.opt, err = h.Optimize(df.Patch, e.oldDir, e.newDir, h.OptParams{Partitions: 2, Comp: h.Comp{}})
			if err != nil {
				corpusErr = err
				return
			}
			// an overlay for the first file that exists in both builds
			for _, ne := range p.New {
				oe := p.Old.Get(ne.Path)
				if ne.Kind != h.KFile || oe == nil || oe.Kind != h.KFile || ne.C.Len() == 0 {
					continue
				}
				e.overlayOld = oe.C.Bytes()
				ob := new(bytes.Buffer)
				ow, err := overlay.NewOverlayWriter(bytes.NewReader(e.overlayOld), 0, ob, 0)
				if err != nil {
					corpusErr = err
					return
				}
				ow.Write(ne.C.Bytes())
				if corpusErr = ow.Finalize(); corpusErr != nil {
					return
				}
				e.overlay = ob.Bytes()
				break
			}
			corpus = append(corpus, e)
		}
	})
	return corpus, corpusErr
}

func TestMain(m *testing.M) {
	code := m.Run()
	if corpusDir != "" {
		os.RemoveAll(corpusDir)
	}
	os.Exit(code)
}

// ---------------------------------------------------------------------------
// message lists: the structured form mutated by generator (2)

type msgList struct {
	magic  int32
	header proto.Message   // PatchHeader / SignatureHeader / OverlayHeader as decoded
	fixed  []proto.Message // containers (never mutated)
	msgs   []proto.Message
	hmode  string // "" | nocomp (the header's compression sub-message is missing) | badalgo (unknown algorithm)
}

func decodeList(stream []byte, kind string) (*msgList, error) {
	src := h.Source(stream)
	if _, err := src.Resume(nil); err != nil {
		return nil, err
	}
	raw := wire.NewReadContext(src)
	ml := &msgList{}
	r := raw
	switch kind {
	case "patch":
		ml.magic = pwr.PatchMagic
		if err := raw.ExpectMagic(pwr.PatchMagic); err != nil {
			return nil, err
		}
		hd := &pwr.PatchHeader{}
		if err := raw.ReadMessage(hd); err != nil {
			return nil, err
		}
		ml.header = hd
		var err error
		if r, err = pwr.DecompressWire(raw, hd.Compression); err != nil {
			return nil, err
		}
		tc, sc := &tlc.Container{}, &tlc.Container{}
		if err := r.ReadMessage(tc); err != nil {
			return nil, err
		}
		if err := r.ReadMessage(sc); err != nil {
			return nil, err
		}
		ml.fixed = []proto.Message{tc, sc}
		for range sc.Files {
			sh := &pwr.SyncHeader{}
			if err := r.ReadMessage(sh); err != nil {
				return nil, err
			}
			ml.msgs = append(ml.msgs, sh)
			if sh.Type == pwr.SyncHeader_BSDIFF {
				bh := &pwr.BsdiffHeader{}
				if err := r.ReadMessage(bh); err != nil {
					return nil, err
				}
				ml.msgs = append(ml.msgs, bh)
				for {
					c := &bsdiff.Control{}
					if err := r.ReadMessage(c); err != nil {
						return nil, err
					}
					ml.msgs = append(ml.msgs, c)
					if c.Eof {
						break
					}
				}
			}
			for {
				op := &pwr.SyncOp{}
				if err := r.ReadMessage(op); err != nil {
					return nil, err
				}
				ml.msgs = append(ml.msgs, op)
				if op.Type == pwr.SyncOp_HEY_YOU_DID_IT {
					break
				}
			}
		}
	case "sig":
		ml.magic = pwr.SignatureMagic
		if err := raw.ExpectMagic(pwr.SignatureMagic); err != nil {
			return nil, err
		}
		hd := &pwr.SignatureHeader{}
		if err := raw.ReadMessage(hd); err != nil {
			return nil, err
		}
		ml.header = hd
		var err error
		if r, err = pwr.DecompressWire(raw, hd.Compression); err != nil {
			return nil, err
		}
		c := &tlc.Container{}
		if err := r.ReadMessage(c); err != nil {
			return nil, err
		}
		ml.fixed = []proto.Message{c}
		for {
			bh := &pwr.BlockHash{}
			if err := r.ReadMessage(bh); err != nil {
				break
			}
			ml.msgs = append(ml.msgs, bh)
		}
	case "overlay":
		ml.magic = overlay.OverlayMagic
		if err := raw.ExpectMagic(overlay.OverlayMagic); err != nil {
			return nil, err
		}
		hd := &overlay.OverlayHeader{}
		if err := raw.ReadMessage(hd); err != nil {
			return nil, err
		}
		ml.header = hd
		for {
			op := &overlay.OverlayOp{}
			if err := raw.ReadMessage(op); err != nil {
				break
			}
			ml.msgs = append(ml.msgs, op)
		}
	}
	return ml, nil
}

func (ml *msgList) encode(kind string, comp h.Comp, msgs []proto.Message) ([]byte, error) {
	buf := new(bytes.Buffer)
	raw := wire.NewWriteContext(buf)
	if err := raw.WriteMagic(ml.magic); err != nil {
		return nil, err
	}
	w := raw
	switch kind {
	case "patch":
		ph := &pwr.PatchHeader{Compression: comp.Settings()}
		switch ml.hmode {
		case "nocomp":
			ph.Compression = nil
		case "badalgo":
			ph.Compression = &pwr.CompressionSettings{Algorithm: 7, Quality: 1}
		}
		if err := raw.WriteMessage(ph); err != nil {
			return nil, err
		}
	case "sig":
		sh := &pwr.SignatureHeader{Compression: comp.Settings()}
		switch ml.hmode {
		case "nocomp":
			sh.Compression = nil
		case "badalgo":
			sh.Compression = &pwr.CompressionSettings{Algorithm: 7, Quality: 1}
		}
		if err := raw.WriteMessage(sh); err != nil {
			return nil, err
		}
	case "overlay":
		if err := raw.WriteMessage(&overlay.OverlayHeader{}); err != nil {
			return nil, err
		}
	}
	if kind != "overlay" {
		var err error
		if w, err = pwr.CompressWire(raw, comp.Settings()); err != nil {
			return nil, err
		}
	}
	for _, m := range ml.fixed {
		if err := w.WriteMessage(m); err != nil {
			return nil, err
		}
	}
	for _, m := range msgs {
		if err := w.WriteMessage(m); err != nil {
			return nil, err
		}
	}
	if kind != "overlay" {
		if err := w.Close(); err != nil {
			return nil, err
		}
	}
	return buf.Bytes(), nil
}

// Mut is one structured mutation of the message list.
type Mut struct {
	I     int    `json:"i"`  // message index (mod length)
	Op    string `json:"op"` // set | drop | dup | swap | cut | replace | insert | reseries
	Field string `json:"field,omitempty"`
	V     int64  `json:"v,omitempty"`
	N     int    `json:"n,omitempty"`
	R     string `json:"r,omitempty"` // replacement / inserted message kind
}

func mkMsg(kind string, v int64) proto.Message {
	switch kind {
	case "end":
		return &pwr.SyncOp{Type: pwr.SyncOp_HEY_YOU_DID_IT}
	case "eof":
		return &bsdiff.Control{Eof: true}
	case "bh":
		return &pwr.BsdiffHeader{TargetIndex: v}
	case "sh-bsdiff":
		return &pwr.SyncHeader{FileIndex: v, Type: pwr.SyncHeader_BSDIFF}
	case "sh-rsync":
		return &pwr.SyncHeader{FileIndex: v, Type: pwr.SyncHeader_RSYNC}
	case "range":
		return &pwr.SyncOp{Type: pwr.SyncOp_BLOCK_RANGE, FileIndex: v, BlockIndex: 0, BlockSpan: 1}
	case "hash":
		return &pwr.BlockHash{WeakHash: uint32(v), StrongHash: []byte("0123456789abcdef")}
	case "skip":
		return &overlay.OverlayOp{Type: overlay.OverlayOp_SKIP, Len: v}
	case "fresh":
		return &overlay.OverlayOp{Type: overlay.OverlayOp_FRESH, Data: []byte("fresh")}
	case "oend":
		return &overlay.OverlayOp{Type: overlay.OverlayOp_HEY_YOU_DID_IT}
	}
	return &pwr.SyncOp{}
}

func junk(n int) []byte {
	if n <= 0 {
		return nil
	}
	return h.Content{{Src: 8, Len: n}}.Bytes()
}

func applyMuts(msgs []proto.Message, muts []Mut) []proto.Message {
	out := make([]proto.Message, len(msgs))
	for i, m := range msgs {
		out[i] = proto.Clone(m)
	}
	for _, mu := range muts {
		if len(out) == 0 {
			if mu.Op == "insert" {
				out = append(out, mkMsg(mu.R, mu.V))
			}
			continue
		}
		i := mu.I % len(out)
		if i < 0 {
			i = -i
		}
		switch mu.Op {
		case "set":
			switch m := out[i].(type) {
			case *pwr.SyncHeader:
				switch mu.Field {
				case "type":
					m.Type = pwr.SyncHeader_Type(mu.V)
				default:
					m.FileIndex = mu.V
				}
			case *pwr.SyncOp:
				switch mu.Field {
				case "type":
					m.Type = pwr.SyncOp_Type(mu.V)
				case "blockIndex":
					m.BlockIndex = mu.V
				case "blockSpan":
					m.BlockSpan = mu.V
				case "data":
					m.Data = junk(mu.N)
				default:
					m.FileIndex = mu.V
				}
			case *pwr.BsdiffHeader:
				m.TargetIndex = mu.V
			case *bsdiff.Control:
				switch mu.Field {
				case "add":
					m.Add = junk(mu.N)
				case "copy":
					m.Copy = junk(mu.N)
				case "eof":
					m.Eof = !m.Eof
				default:
					m.Seek = mu.V
				}
			case *pwr.BlockHash:
				switch mu.Field {
				case "strong":
					m.StrongHash = junk(mu.N % 64)
				default:
					m.WeakHash = uint32(mu.V)
				}
			case *overlay.OverlayOp:
				switch mu.Field {
				case "type":
					m.Type = overlay.OverlayOp_Type(mu.V)
				case "data":
					m.Data = junk(mu.N)
				default:
					m.Len = mu.V
				}
			}
		case "drop":
			out = append(out[:i], out[i+1:]...)
		case "dup":
			out = append(out[:i+1], out[i:]...)
		case "swap":
			if i+1 < len(out) {
				out[i], out[i+1] = out[i+1], out[i]
			}
		case "cut":
			out = out[:i]
		case "reseries":
			// the whole series of one file (sync header .. end marker) replaced by a syntactically complete series
			// of the other kind for the same file: "series kinds swapped" with everything that belongs to the kind
			var heads []int
			for k, m := range out {
				if _, ok := m.(*pwr.SyncHeader); ok {
					heads = append(heads, k)
				}
			}
			if len(heads) == 0 {
				continue
			}
			from := heads[i%len(heads)]
			sh := out[from].(*pwr.SyncHeader)
			to := from + 1
			for to < len(out) {
				if op, ok := out[to].(*pwr.SyncOp); ok && op.Type == pwr.SyncOp_HEY_YOU_DID_IT {
					to++
					break
				}
				to++
			}
			var ns []proto.Message
			if sh.Type == pwr.SyncHeader_BSDIFF {
				ns = append(ns, &pwr.SyncHeader{FileIndex: sh.FileIndex, Type: pwr.SyncHeader_RSYNC})
				if mu.N > 0 {
					ns = append(ns, &pwr.SyncOp{Type: pwr.SyncOp_DATA, Data: junk(mu.N)})
				}
			} else {
				ns = append(ns, &pwr.SyncHeader{FileIndex: sh.FileIndex, Type: pwr.SyncHeader_BSDIFF}, &pwr.BsdiffHeader{TargetIndex: mu.V})
				if mu.N > 0 {
					ns = append(ns, &bsdiff.Control{Add: junk(mu.N / 2), Copy: junk(mu.N - mu.N/2)})
				}
				ns = append(ns, &bsdiff.Control{Eof: true})
			}
			ns = append(ns, &pwr.SyncOp{Type: pwr.SyncOp_HEY_YOU_DID_IT})
			out = append(append(append([]proto.Message{}, out[:from]...), ns...), out[to:]...)
		case "replace":
			out[i] = mkMsg(mu.R, mu.V)
		case "insert":
			out = append(out[:i], append([]proto.Message{mkMsg(mu.R, mu.V)}, out[i:]...)...)
		}
	}
	return out
}

// ---------------------------------------------------------------------------
// targets

type dryPool struct{ c *tlc.Container }

// run feeds stream to a target. It returns the error the target returned (nil
// is fine: "return an error or complete").
func runTarget(target string, e *corpusEntry, stream []byte, cks ...[]byte) error {
	switch target {
	case "apply-resume":
		// the applier entered through its other door: Resume from a checkpoint that an application of the
		// INTACT stream (same framing) handed out, in a brand-new patcher over the malformed stream
		var first error
		for _, ckb := range cks {
			ck := &patcher.Checkpoint{}
			if err := gob.NewDecoder(bytes.NewReader(ckb)).Decode(ck); err != nil {
				continue
			}
			// only checkpoints this stream could have produced: what they resume from must still be there (a
			// file that lost its tail after the checkpoint was taken). A checkpoint pointing beyond the end of
			// the stream belongs to another stream; that is not what the property quantifies over.
			// (offsets are relative to the section behind magic and header: 64 bytes of margin cover those)
			if ck.MessageCheckpoint == nil || rawResumeOffset(ck.MessageCheckpoint.SourceCheckpoint)+64 > int64(len(stream)) {
				continue
			}
			err := func() error {
				p, err := patcher.New(h.Source(stream), h.Quiet())
				if err != nil {
					return err
				}
				tp := fspool.New(p.GetTargetContainer(), e.oldDir)
				out := h.TempDir("c10res")
				defer os.RemoveAll(out)
				b, err := bowl.NewFreshBowl(bowl.FreshBowlParams{SourceContainer: p.GetSourceContainer(), TargetContainer: p.GetTargetContainer(), TargetPool: tp, OutputFolder: out})
				if err != nil {
					return err
				}
				defer b.Close()
				if err := p.Resume(ck, tp, b); err != nil {
					return err
				}
				return b.Commit()
			}()
			if first == nil {
				first = err
			}
		}
		return first
	case "apply-fresh", "apply-dry":
		p, err := patcher.New(h.Source(stream), h.Quiet())
		if err != nil {
			return err
		}
		tp := fspool.New(p.GetTargetContainer(), e.oldDir)
		var b bowl.Bowl
		var out string
		if target == "apply-fresh" {
			out = h.TempDir("c10out")
			defer os.RemoveAll(out)
			b, err = bowl.NewFreshBowl(bowl.FreshBowlParams{SourceContainer: p.GetSourceContainer(), TargetContainer: p.GetTargetContainer(), TargetPool: tp, OutputFolder: out})
		} else {
			b, err = bowl.NewDryBowl(&bowl.DryBowlParams{SourceContainer: p.GetSourceContainer(), TargetContainer: p.GetTargetContainer()})
		}
		if err != nil {
			return err
		}
		defer b.Close()
		if err := p.Resume(nil, tp, b); err != nil {
			return err
		}
		return b.Commit()
	case "optimize":
		rc, err := rediff.NewContext(rediff.Params{PatchReader: h.Source(stream), Consumer: h.Quiet(), Compression: h.Comp{}.Settings(), Partitions: 2})
		if err != nil {
			return err
		}
		return rc.Optimize(rediff.OptimizeParams{
			TargetPool:  fspool.New(rc.GetTargetContainer(), e.oldDir),
			SourcePool:  fspool.New(rc.GetSourceContainer(), e.newDir),
			PatchWriter: io.Discard,
		})
	case "signature":
		src := h.Source(stream)
		if _, err := src.Resume(nil); err != nil {
			return err
		}
		si, err := pwr.ReadSignature(context.Background(), src)
		if err != nil {
			return err
		}
		hi, err := pwr.ComputeHashInfo(si)
		if err != nil {
			return err
		}
		bv := pwr.NewBlockValidator(hi)
		for i := range si.Container.Files {
			bv.ValidateAsError(int64(i), 0, []byte("some block"))
			bv.BlockSize(int64(i), 0)
		}
		return nil
	case "overlay":
		d := h.TempDir("c10ov")
		defer os.RemoveAll(d)
		fp := filepath.Join(d, "f")
		if err := os.WriteFile(fp, e.overlayOld, 0o644); err != nil {
			return nil
		}
		f, err := os.OpenFile(fp, os.O_WRONLY, 0)
		if err != nil {
			return nil
		}
		defer f.Close()
		src := h.Source(stream)
		if _, err := src.Resume(nil); err != nil {
			return err
		}
		return (&overlay.OverlayPatchContext{}).Patch(src, f)
	}
	return fmt.Errorf("unknown target %s", target)
}

func streamFor(e *corpusEntry, target string, optimized bool) (kind string, stream []byte) {
	switch target {
	case "signature":
		return "sig", e.sig
	case "overlay":
		return "overlay", e.overlay
	}
	if optimized {
		return "patch", e.opt
	}
	return "patch", e.plain
}

var targets = []string{"apply-fresh", "apply-dry", "apply-resume", "optimize", "signature", "overlay"}

// ---------------------------------------------------------------------------
// generator (2): structured mutation

type Spec struct {
	Corpus    int    `json:"corpus"`
	Target    string `json:"target"`
	Optimized bool   `json:"optimized,omitempty"`
	Comp      h.Comp `json:"comp"`
	Muts      []Mut  `json:"muts,omitempty"`
	TruncAt   int    `json:"trunc_at,omitempty"`  // >0: instead of mutating, cut the (re-framed) stream to this many bytes (mod length)
	TruncAll  bool   `json:"trunc_all,omitempty"` // journal entries of the truncation enumeration: every prefix
	Header    string `json:"header,omitempty"`    // nocomp | badalgo: the stream's own header message is the hostile one
}

func check(s Spec) h.Result {
	cs, err := getCorpus()
	if err != nil {
		return h.Result{Skip: "corpus: " + err.Error()}
	}
	e := cs[s.Corpus%len(cs)]
	kind, base := streamFor(e, s.Target, s.Optimized)
	if len(base) == 0 {
		return h.Result{Skip: "corpus entry has no such stream"}
	}
	cl := []string{"target:" + s.Target, "stream:" + kind}
	ml, err := decodeList(base, kind)
	if err != nil {
		return h.Failf("harness cannot decode its own corpus stream: %v", err)
	}
	msgs := applyMuts(ml.msgs, s.Muts)
	if s.Header != "" && kind != "overlay" && s.Target != "apply-resume" {
		ml.hmode = s.Header
		cl = append(cl, "mutation:header:"+s.Header)
	}
	stream, err := ml.encode(kind, s.Comp, msgs)
	if err != nil {
		return h.Result{Skip: "cannot re-frame: " + err.Error()}
	}
	var cks [][]byte
	if s.Target == "apply-resume" && len(s.Muts) > 0 {
		return h.Result{Skip: "the resume target is only fed truncated streams (a resumed reader is only aligned if nothing before it moved)"}
	}
	if s.Target == "apply-resume" {
		intact, err := ml.encode(kind, s.Comp, ml.msgs)
		if err != nil {
			return h.Result{Skip: "cannot re-frame: " + err.Error()}
		}
		cks = checkpointsOf(fmt.Sprintf("%d/%v/%v", s.Corpus%len(cs), s.Optimized, s.Comp), e, intact)
		if len(cks) == 0 {
			return h.Result{Skip: "the intact stream offers no checkpoint under this framing"}
		}
		cl = append(cl, "resume:from-a-checkpoint-of-the-intact-stream")
	}
	if s.TruncAll {
		ps := prefixes(stream)
		for _, l := range ps {
			if perr := runGuarded(s.Target, e, stream[:l], cks...); perr != "" {
				return h.Result{Fail: fmt.Sprintf("%s stream truncated to %d of %d bytes: %s", kind, l, len(stream), perr), Classes: cl}
			}
		}
		if len(ps) == len(stream) {
			cl = append(cl, "truncation:every-prefix")
		} else {
			cl = append(cl, "truncation:sampled-prefixes-of-a-large-stream")
		}
		return h.Result{Classes: cl, Sub: len(ps)}
	}
	if s.TruncAt > 0 {
		stream = stream[:s.TruncAt%len(stream)]
		cl = append(cl, "mutation:truncation")
	}
	nt := false
	for _, mu := range s.Muts {
		cl = append(cl, "mutation:"+mu.Op)
		if mu.Op == "set" {
			cl = append(cl, "mutation:set:"+mu.Field)
		}
		nt = true // every mutation lands behind the containers: the target has to handle ops to reach it
	}
	if s.Comp.Algo != 0 {
		cl = append(cl, "framing:compressed")
	}
	if perr := runGuarded(s.Target, e, stream, cks...); perr != "" {
		return h.Result{Fail: perr, Classes: cl}
	}
	return h.Result{Classes: cl, NonTrivial: nt}
}

// prefixes lists the truncation lengths to try: every one for streams up to
// 6000 bytes; for larger streams the first 2048, the last 128, +-3 around every
// message boundary of the (outer) framing, and a stride.
func prefixes(stream []byte) []int {
	n := len(stream)
	var out []int
	if n <= 6000 {
		for l := 0; l < n; l++ {
			out = append(out, l)
		}
		return out
	}
	want := map[int]bool{}
	for l := 0; l < 2048; l++ {
		want[l] = true
	}
	for l := n - 128; l < n; l++ {
		want[l] = true
	}
	for l := 0; l < n; l += n/512 + 1 {
		want[l] = true
	}
	// outer framing boundaries
	p := 4
	for p < n {
		var l uint64
		var shift uint
		i := p
		for i < n {
			c := stream[i]
			i++
			l |= uint64(c&0x7f) << shift
			if c < 0x80 {
				break
			}
			shift += 7
		}
		for d := -3; d <= 3; d++ {
			for _, b := range []int{p, i} {
				if b+d >= 0 && b+d < n {
					want[b+d] = true
				}
			}
		}
		if l > uint64(n) {
			break
		}
		p = i + int(l)
	}
	for l := 0; l < n; l++ {
		if want[l] {
			out = append(out, l)
		}
	}
	return out
}

// runGuarded converts a panic on this goroutine into a message (the runner's
// watchdog handles hangs, the journal handles panics in wharf's goroutines).
func runGuarded(target string, e *corpusEntry, stream []byte, cks ...[]byte) (msg string) {
	defer func() {
		if r := recover(); r != nil {
			msg = fmt.Sprintf("target %s panicked: %v\n%s", target, r, h.TrimStack())
		}
	}()
	runTarget(target, e, stream, cks...)
	return ""
}

var (
	ckMu    sync.Mutex
	ckCache = map[string][][]byte{}
)

// rawResumeOffset finds the innermost source checkpoint (the one of the byte source under the decompressor):
// its offset is where resuming will seek to in the raw stream.
func rawResumeOffset(sc *savior.SourceCheckpoint) int64 {
	for depth := 0; sc != nil && depth < 8; depth++ {
		if sc.Data == nil {
			return sc.Offset
		}
		v := reflect.ValueOf(sc.Data)
		for v.Kind() == reflect.Ptr || v.Kind() == reflect.Interface {
			if v.IsNil() {
				return sc.Offset
			}
			v = v.Elem()
		}
		if v.Kind() != reflect.Struct {
			return sc.Offset
		}
		var next *savior.SourceCheckpoint
		for i := 0; i < v.NumField(); i++ {
			if c, ok := v.Field(i).Interface().(*savior.SourceCheckpoint); ok && c != nil {
				next = c
			}
		}
		if next == nil {
			return sc.Offset
		}
		sc = next
	}
	return 0
}

// checkpointsOf applies the intact stream with an always-saving consumer and keeps two of the checkpoints it is
// handed (gob-encoded): the one whose source checkpoint lags its message offset most, and the last one.
func checkpointsOf(key string, e *corpusEntry, intact []byte) [][]byte {
	ckMu.Lock()
	defer ckMu.Unlock()
	if c, ok := ckCache[key]; ok {
		return c
	}
	var all [][]byte
	var gaps []int64
	func() {
		defer func() { recover() }()
		p, err := patcher.New(h.Source(intact), h.Quiet())
		if err != nil {
			return
		}
		p.SetSaveConsumer(&ckSaver{save: func(c *patcher.Checkpoint) {
			b := new(bytes.Buffer)
			if gob.NewEncoder(b).Encode(c) == nil {
				all = append(all, b.Bytes())
				g := int64(0)
				if c.MessageCheckpoint != nil && c.MessageCheckpoint.SourceCheckpoint != nil {
					g = c.MessageCheckpoint.Offset - c.MessageCheckpoint.SourceCheckpoint.Offset
				}
				gaps = append(gaps, g)
			}
		}})
		tp := fspool.New(p.GetTargetContainer(), e.oldDir)
		out := h.TempDir("c10ck")
		defer os.RemoveAll(out)
		b, err := bowl.NewFreshBowl(bowl.FreshBowlParams{SourceContainer: p.GetSourceContainer(), TargetContainer: p.GetTargetContainer(), TargetPool: tp, OutputFolder: out})
		if err != nil {
			return
		}
		defer b.Close()
		p.Resume(nil, tp, b)
	}()
	var keep [][]byte
	if len(all) > 0 {
		best := 0
		for i, g := range gaps {
			if g > gaps[best] {
				best = i
			}
		}
		keep = append(keep, all[best])
		if best != len(all)-1 {
			keep = append(keep, all[len(all)-1])
		}
	}
	ckCache[key] = keep
	return keep
}

type ckSaver struct{ save func(*patcher.Checkpoint) }

func (s *ckSaver) ShouldSave() bool { return true }
func (s *ckSaver) Save(c *patcher.Checkpoint) (patcher.AfterSaveAction, error) {
	s.save(c)
	return patcher.AfterSaveContinue, nil
}

func hostile(t *rapid.T, e *corpusEntry, label string) int64 {
	return rapid.OneOf(
		rapid.SampledFrom([]int64{-1, 0, 1, 2, 2049, 1 << 31, 1 << 40, 1 << 62, -1 << 63, -2, 65535, 65536, 1<<63 - 1}),
		rapid.Int64Range(-2, int64(e.nOld+2)),
		rapid.Int64Range(-2, int64(e.nNew+2)),
	).Draw(t, label)
}

func genMut(t *rapid.T, e *corpusEntry, kind string) Mut {
	mu := Mut{I: rapid.IntRange(0, 400).Draw(t, "index")}
	mu.Op = rapid.SampledFrom([]string{"set", "set", "set", "set", "drop", "dup", "swap", "cut", "replace", "insert"}).Draw(t, "mutation")
	mu.V = hostile(t, e, "value")
	if kind == "patch" && rapid.IntRange(0, 7).Draw(t, "reseries") == 0 {
		mu.Op = "reseries"
		mu.V = rapid.OneOf(rapid.Int64Range(0, int64(e.nOld)), rapid.Just(mu.V)).Draw(t, "bsdiff-target")
		mu.N = rapid.SampledFrom([]int{0, 0, 0, 1, 2, 100, 200, 5000, 70000}).Draw(t, "series-bytes")
	}
	switch mu.Op {
	case "set":
		switch kind {
		case "patch":
			mu.Field = rapid.SampledFrom([]string{"fileIndex", "type", "blockIndex", "blockSpan", "data", "seek", "add", "copy", "eof"}).Draw(t, "field")
		case "sig":
			mu.Field = rapid.SampledFrom([]string{"weak", "strong"}).Draw(t, "field")
		default:
			mu.Field = rapid.SampledFrom([]string{"len", "type", "data"}).Draw(t, "field")
		}
		mu.N = rapid.OneOf(rapid.IntRange(0, 100), rapid.IntRange(0, 300000)).Draw(t, "length")
	case "replace", "insert":
		switch kind {
		case "patch":
			mu.R = rapid.SampledFrom([]string{"end", "eof", "bh", "sh-bsdiff", "sh-rsync", "range"}).Draw(t, "message")
		case "sig":
			mu.R = "hash"
		default:
			mu.R = rapid.SampledFrom([]string{"skip", "fresh", "oend"}).Draw(t, "message")
		}
	}
	return mu
}

var prop = h.Prop[Spec]{
	ID: "C10", Name: "mutate",
	Gen: func(t *rapid.T) Spec {
		cs, err := getCorpus()
		if err != nil {
			t.Fatalf("corpus: %v", err)
		}
		s := Spec{Corpus: rapid.IntRange(0, len(cs)-1).Draw(t, "corpus"), Target: rapid.SampledFrom(targets).Draw(t, "target")}
		e := cs[s.Corpus]
		s.Optimized = rapid.Bool().Draw(t, "optimized")
		kind, _ := streamFor(e, s.Target, s.Optimized)
		if kind != "overlay" {
			switch rapid.IntRange(0, 4).Draw(t, "algo") {
			case 3:
				s.Comp = h.Comp{Algo: 2, Q: 1}
			case 4:
				s.Comp = h.Comp{Algo: 1, Q: 1}
			}
		}
		if s.Target == "apply-resume" {
			// resuming in the middle of a stream whose messages were dropped, duplicated or resized lands between
			// message boundaries, where arbitrary bytes read as a length prefix: outside the stated precondition
			// ("no single message declares a length beyond the stream"). This target only gets truncations.
			s.TruncAt = rapid.IntRange(1, 1<<20).Draw(t, "trunc-at")
			return s
		}
		n := rapid.IntRange(1, 3).Draw(t, "nmutations")
		for i := 0; i < n; i++ {
			s.Muts = append(s.Muts, genMut(t, e, kind))
		}
		if rapid.IntRange(0, 9).Draw(t, "also-truncate") == 0 {
			s.TruncAt = rapid.IntRange(1, 1<<20).Draw(t, "trunc-at")
		}
		if rapid.IntRange(0, 11).Draw(t, "hostile-header") == 0 {
			s.Header = rapid.SampledFrom([]string{"nocomp", "nocomp", "badalgo"}).Draw(t, "header")
		}
		return s
	},
	Check:    check,
	Watchdog: 60 * time.Second,
}

func TestMutate(t *testing.T) { h.Run(t, prop) }

// a truncation batch runs thousands of prefixes under one watchdog
var propTrunc = h.Prop[Spec]{ID: "C10", Name: "truncate", Check: check, Watchdog: 180 * time.Second}

// generator (1): every byte-level truncation of every corpus stream, for every framing
func TestTruncate(t *testing.T) {
	ev := h.NewEvidence("C10", "truncate")
	ev.Exhaustive = true
	defer ev.Write()
	cs, err := getCorpus()
	if err != nil {
		t.Fatalf("corpus: %v", err)
	}
	shard, nsh := h.Shard(), h.NShards()
	job := 0
	comps := []h.Comp{{}, {Algo: 2, Q: 1}, {Algo: 1, Q: 1}}
	for ci := range cs {
		for _, target := range targets {
			for _, optimized := range []bool{false, true} {
				if optimized && (target == "signature" || target == "overlay") {
					continue
				}
				for _, comp := range comps {
					if target == "overlay" && comp.Algo != 0 {
						continue
					}
					job++
					if job%nsh != shard {
						continue
					}
					spec := Spec{Corpus: ci, Target: target, Optimized: optimized, Comp: comp, TruncAll: true}
					h.WriteCurrent("C10", "truncate", spec)
					res := h.Guard(&propTrunc, spec, check)
					if res.Fail != "" {
						ev.Failures++
						h.WriteFail("C10", "truncate", spec, res.Fail)
						t.Fatalf("%s", res.Fail)
					}
					for _, c := range res.Classes {
						ev.Classes[c]++
					}
					if res.Skip == "" {
						ev.Spaces = append(ev.Spaces, fmt.Sprintf("all %d prefixes of corpus %d / %s / optimized=%v / %s", res.Sub, ci, target, optimized, comp))
						for i := 0; i < res.Sub; i++ {
							ev.CountNT(nil, true, func() interface{} { return spec })
						}
					}
				}
			}
		}
	}
	h.ClearCurrent("truncate")
}

func TestReplay(t *testing.T) {
	h.ReplayMain(t, map[string]h.Replayer{"mutate": h.ReplayerOf(prop), "truncate": h.ReplayerOf(propTrunc), "fuzz": h.ReplayerOf(propRaw)})
}

// ---------------------------------------------------------------------------
// generator (3): raw bytes (native go fuzzing in the thorough tier; the same
// body also replays saved crashers)

type RawSpec struct {
	Target string `json:"target"`
	Corpus int    `json:"corpus"`
	Hex    []byte `json:"bytes"`
}

// framingOK enforces the property's precondition on raw inputs: uncompressed
// framing and no message declaring a length beyond the stream.
func framingOK(b []byte) bool {
	if len(b) < 4 {
		return true
	}
	p := 4
	first := true
	for p < len(b) {
		var l uint64
		var shift uint
		i := p
		for {
			if i >= len(b) {
				return true // truncated inside a varint: a truncation, allowed
			}
			c := b[i]
			i++
			l |= uint64(c&0x7f) << shift
			if c < 0x80 {
				break
			}
			shift += 7
			if shift > 63 {
				return false
			}
		}
		if l > uint64(len(b)) {
			return false // declares a length beyond the whole stream
		}
		if first {
			// the header: only uncompressed framing is fuzzed at byte level
			end := i + int(l)
			if end > len(b) {
				return true
			}
			hd := &pwr.PatchHeader{}
			if proto.Unmarshal(b[i:end], hd) == nil && hd.Compression != nil && hd.Compression.Algorithm != pwr.CompressionAlgorithm_NONE {
				return false
			}
			first = false
		}
		p = i + int(l)
	}
	return true
}

func checkRaw(s RawSpec) h.Result {
	cs, err := getCorpus()
	if err != nil {
		return h.Result{Skip: "corpus"}
	}
	e := cs[s.Corpus%len(cs)]
	if !framingOK(s.Hex) {
		return h.Result{Skip: "precondition: a message declares a length beyond the stream, or compressed framing"}
	}
	if perr := runGuarded(s.Target, e, s.Hex); perr != "" {
		return h.Result{Fail: perr}
	}
	return h.Result{NonTrivial: true}
}

var propRaw = h.Prop[RawSpec]{ID: "C10", Name: "fuzz", Check: checkRaw, Watchdog: 60 * time.Second}

func fuzzTarget(f *testing.F, target string) {
	cs, err := getCorpus()
	if err != nil {
		f.Fatalf("corpus: %v", err)
	}
	for ci, e := range cs {
		for _, opt := range []bool{false, true} {
			_, st := streamFor(e, target, opt)
			if len(st) > 0 {
				f.Add(uint8(ci), st)
			}
		}
	}
	f.Fuzz(func(t *testing.T, ci uint8, b []byte) {
		s := RawSpec{Target: target, Corpus: int(ci), Hex: b}
		res := h.Guard(&propRaw, s, checkRaw)
		if res.Fail != "" {
			h.WriteFail("C10", "fuzz", s, res.Fail)
			t.Fatalf("%s", res.Fail)
		}
	})
}

func FuzzApplyFresh(f *testing.F) { fuzzTarget(f, "apply-fresh") }
func FuzzOptimize(f *testing.F)   { fuzzTarget(f, "optimize") }
func FuzzSignature(f *testing.F)  { fuzzTarget(f, "signature") }
func FuzzOverlay(f *testing.F)    { fuzzTarget(f, "overlay") }
