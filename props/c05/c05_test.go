// C05 Validation reports every deviation from the signed build and locates it.
package c05

import (
	"context"
	"fmt"
	"io"
	"os"
	"path/filepath"
	"testing"

	"verif/harness/h"

	"github.com/itchio/headway/state"
	"github.com/itchio/lake/tlc"
	"github.com/itchio/wharf/pwr"
	"github.com/itchio/wharf/wire"
	"github.com/pkg/errors"
	"pgregory.net/rapid"
)

type Spec struct {
	Tree    h.Tree  `json:"tree"`
	Damages []h.Dmg `json:"damages"`
	// SigFile: validate against the signature read back from a signature stream (what butler does)
	// instead of the directly computed one
	SigFile bool `json:"sig_file,omitempty"`
	// Listen: the consumer given to the default (printer) mode has an OnMessage callback; without it the
	// consumer is the zero value, as in the other modes
	Listen bool `json:"listen,omitempty"`
}

// readWounds parses a .pww file.
func readWounds(path string) ([]*pwr.Wound, error) {
	b, err := os.ReadFile(path)
	if err != nil {
		return nil, err
	}
	src := h.Source(b)
	if _, err := src.Resume(nil); err != nil {
		return nil, err
	}
	r := wire.NewReadContext(src)
	if err := r.ExpectMagic(pwr.WoundsMagic); err != nil {
		return nil, err
	}
	if err := r.ReadMessage(&pwr.WoundsHeader{}); err != nil {
		return nil, err
	}
	if err := r.ReadMessage(&tlc.Container{}); err != nil {
		return nil, err
	}
	var out []*pwr.Wound
	for {
		w := &pwr.Wound{}
		err := r.ReadMessage(w)
		if err != nil {
			if errors.Cause(err) == io.EOF {
				return out, nil
			}
			return out, err
		}
		out = append(out, w)
	}
}

// IndexOf maps (kind, path) to the entry's index in the signature's container.
func IndexOf(c *tlc.Container) func(kind, path string) int {
	m := map[string]int{}
	for i, f := range c.Files {
		m[h.KFile+f.Path] = i
	}
	for i, f := range c.Dirs {
		m[h.KDir+f.Path] = i
	}
	for i, f := range c.Symlinks {
		m[h.KLink+f.Path] = i
	}
	return func(kind, path string) int {
		if i, ok := m[kind+path]; ok {
			return i
		}
		return -1
	}
}

// JudgeWounds applies the located-deviation oracle to a wound list.
func JudgeWounds(c *tlc.Container, devs []h.Deviation, wounds []*pwr.Wound) string {
	for i, w := range wounds {
		var n int
		switch w.Kind {
		case pwr.WoundKind_FILE:
			n = len(c.Files)
		case pwr.WoundKind_DIR:
			n = len(c.Dirs)
		case pwr.WoundKind_SYMLINK:
			n = len(c.Symlinks)
		case pwr.WoundKind_CLOSED_FILE:
			n = len(c.Files)
		default:
			return fmt.Sprintf("wound #%d has unknown kind %d", i, w.Kind)
		}
		if w.Index < 0 || int(w.Index) >= n {
			return fmt.Sprintf("wound #%d (%v) names entry %d, the container has %d such entries", i, w.Kind, w.Index, n)
		}
		if w.Start < 0 || w.Start > w.End {
			return fmt.Sprintf("wound #%d (%v, entry %d) has an ill-formed range [%d,%d)", i, w.Kind, w.Index, w.Start, w.End)
		}
	}
	has := func(kind pwr.WoundKind, idx int) bool {
		for _, w := range wounds {
			if w.Kind == kind && int(w.Index) == idx {
				return true
			}
		}
		return false
	}
	covered := func(idx int, off int) bool {
		for _, w := range wounds {
			if w.Kind == pwr.WoundKind_FILE && int(w.Index) == idx && int64(off) >= w.Start && int64(off) < w.End {
				return true
			}
		}
		return false
	}
	for _, d := range devs {
		switch d.Kind {
		case h.KDir:
			if !has(pwr.WoundKind_DIR, d.Index) {
				return fmt.Sprintf("directory %s deviates (missing=%v wrong-kind=%v) but no DIR wound names it", d.Path, d.Missing, d.WrongKnd)
			}
		case h.KLink:
			if !has(pwr.WoundKind_SYMLINK, d.Index) {
				return fmt.Sprintf("symlink %s deviates (missing=%v wrong-kind=%v wrong-dest=%v) but no SYMLINK wound names it", d.Path, d.Missing, d.WrongKnd, d.WrongDst)
			}
		case h.KFile:
			if !has(pwr.WoundKind_FILE, d.Index) {
				return fmt.Sprintf("file %s deviates (missing=%v wrong-kind=%v shorter=%v longer=%v differing-offsets=%v) but no FILE wound names it",
					d.Path, d.Missing, d.WrongKnd, d.Shorter, d.Longer, d.DiffOffsets)
			}
			for _, off := range d.DiffOffsets {
				if !covered(d.Index, off) {
					return fmt.Sprintf("file %s differs from the signed file at offset %d (signed length %d) but no wound of that file covers the offset", d.Path, off, d.SignedLen)
				}
			}
		}
	}
	return ""
}

func check(s Spec) h.Result {
	d := h.TempDir("c05")
	defer os.RemoveAll(d)
	ref, work := filepath.Join(d, "ref"), filepath.Join(d, "work")
	if err := s.Tree.Write(ref); err != nil {
		return h.Result{Skip: "cannot write tree"}
	}
	if err := s.Tree.Write(work); err != nil {
		return h.Result{Skip: "cannot write tree"}
	}
	si, err := h.SignatureOf(ref, s.SigFile)
	if err != nil {
		return h.Failf("signing failed: %v", err)
	}
	c := si.Container
	for _, dm := range s.Damages {
		if err := h.ApplyDmg(work, dm); err != nil {
			return h.Result{Skip: "cannot damage: " + err.Error()}
		}
	}
	cl := h.DmgClasses(s.Tree, s.Damages)
	if s.SigFile {
		cl = append(cl, "signature:read-back-from-a-stream")
	}
	devs := h.Observe(work, s.Tree, IndexOf(c))
	deviates := len(devs) > 0
	if _, err := os.Lstat(work); err != nil {
		// the build directory itself is gone: everything deviates
		deviates = len(s.Tree) > 0
	}
	if deviates {
		cl = append(cl, "dir:deviates")
	} else {
		cl = append(cl, "dir:identical")
	}
	// wounds-file mode
	wp := filepath.Join(d, "wounds.pww")
	vctx := &pwr.ValidatorContext{WoundsPath: wp, Consumer: h.Quiet()}
	verr := vctx.Validate(context.Background(), work, si)
	var wounds []*pwr.Wound
	if _, err := os.Lstat(wp); err == nil {
		wounds, err = readWounds(wp)
		if err != nil && verr == nil {
			return h.Result{Fail: fmt.Sprintf("validation returned nil but its wounds file cannot be parsed: %v", err), Classes: cl}
		}
	}
	if !deviates {
		if verr != nil {
			return h.Result{Fail: fmt.Sprintf("directory identical to the signed build, but wounds-file validation failed: %v", verr), Classes: cl}
		}
		if len(wounds) > 0 || vctx.WoundsConsumer.HasWounds() {
			return h.Result{Fail: fmt.Sprintf("directory identical to the signed build, but %d wounds were reported", len(wounds)), Classes: cl}
		}
	} else {
		if verr == nil {
			if len(wounds) == 0 || !vctx.WoundsConsumer.HasWounds() {
				return h.Result{Fail: fmt.Sprintf("directory deviates (%s) but validation reported no wound (HasWounds=%v, %d wounds in file)", describe(devs), vctx.WoundsConsumer.HasWounds(), len(wounds)), Classes: cl}
			}
			if m := JudgeWounds(c, devs, wounds); m != "" {
				return h.Result{Fail: m, Classes: cl}
			}
			if vctx.WoundsConsumer.TotalCorrupted() < 0 {
				return h.Result{Fail: fmt.Sprintf("TotalCorrupted() is negative (%d) although every wound has start <= end", vctx.WoundsConsumer.TotalCorrupted()), Classes: cl}
			}
			cl = append(cl, "outcome:wounds-located")
		} else {
			cl = append(cl, "outcome:validate-returned-error")
			// an error is an accepted way of not declaring the directory valid; wounds
			// that were written before the error must still be well-formed
			if m := JudgeWounds(c, nil, wounds); m != "" {
				return h.Result{Fail: m, Classes: cl}
			}
		}
	}
	// default mode: no wounds file, no fail-fast, no healing - the wounds go to the printer, and its verdict
	// is what HasWounds() says afterwards
	pcons := h.Quiet()
	if s.Listen {
		pcons = &state.Consumer{OnMessage: func(level, msg string) {}}
		cl = append(cl, "printer:consumer-with-OnMessage")
	} else {
		cl = append(cl, "printer:zero-value-consumer")
	}
	pctx := &pwr.ValidatorContext{Consumer: pcons}
	perr := pctx.Validate(context.Background(), work, si)
	if !deviates {
		if perr != nil {
			return h.Result{Fail: fmt.Sprintf("directory identical to the signed build, but default-mode validation failed: %v", perr), Classes: cl}
		}
		if pctx.WoundsConsumer.HasWounds() {
			return h.Result{Fail: "directory identical to the signed build, but default-mode validation says HasWounds()", Classes: cl}
		}
	} else if perr == nil {
		if !pctx.WoundsConsumer.HasWounds() {
			return h.Result{Fail: fmt.Sprintf("directory deviates (%s) but default-mode validation returned nil with HasWounds()=false", describe(devs)), Classes: cl}
		}
		if pctx.WoundsConsumer.TotalCorrupted() < 0 {
			return h.Result{Fail: fmt.Sprintf("default mode: TotalCorrupted() is negative (%d)", pctx.WoundsConsumer.TotalCorrupted()), Classes: cl}
		}
	}
	// fail-fast mode
	ferr := pwr.AssertValid(work, si)
	if deviates && ferr == nil {
		return h.Result{Fail: fmt.Sprintf("directory deviates (%s) but fail-fast validation returned no error", describe(devs)), Classes: cl}
	}
	if !deviates && ferr != nil {
		return h.Result{Fail: fmt.Sprintf("directory identical to the signed build, but fail-fast validation failed: %v", ferr), Classes: cl}
	}
	nt := false
	for _, c := range cl {
		if c == "damage:flip-at-block-boundary-class" || c == "damage:length-change-crossing-block-boundary" {
			nt = deviates
		}
	}
	return h.Result{Classes: cl, NonTrivial: nt}
}

func describe(devs []h.Deviation) string {
	if len(devs) == 0 {
		return "build directory missing"
	}
	d := devs[0]
	return fmt.Sprintf("%d entries, first: %s %s missing=%v wrong-kind=%v wrong-dest=%v shorter=%v longer=%v diffs=%v", len(devs), d.Kind, d.Path, d.Missing, d.WrongKnd, d.WrongDst, d.Shorter, d.Longer, d.DiffOffsets)
}

func GenTree(t *rapid.T) h.Tree {
	return h.GenOldTree(t, h.GenOpts{MaxOld: 7})
}

var prop = h.Prop[Spec]{
	ID: "C05", Name: "wounds",
	Gen: func(t *rapid.T) Spec {
		tr := GenTree(t)
		return Spec{Tree: tr, Damages: h.GenDamages(t, tr, 4, true, false), SigFile: rapid.IntRange(0, 3).Draw(t, "signature-from-stream") == 0, Listen: rapid.Bool().Draw(t, "printer-listens")}
	},
	Check: check,
}

func TestProp(t *testing.T) { h.Run(t, prop) }

// long runs of damage: one file of 66-150 blocks with 1-2 scrambled ranges that may span more blocks than one
// aggregated wound can hold (4 MiB = 64 blocks), plus the usual damages on the small files around it
var propLong = h.Prop[Spec]{
	ID: "C05", Name: "longrun",
	Gen: func(t *rapid.T) Spec {
		tr := h.GenOldTree(t, h.GenOpts{MaxOld: 3})
		nb := rapid.OneOf(rapid.IntRange(66, 70), rapid.IntRange(127, 132), rapid.IntRange(66, 150)).Draw(t, "big-blocks")
		size := nb*h.BS + rapid.SampledFrom([]int{0, 1, 1234, h.BS - 1}).Draw(t, "big-tail")
		name := rapid.SampledFrom([]string{"0big", "mbig", "zbig"}).Draw(t, "big-name")
		if !tr.CanAdd(name) {
			tr = h.Tree{}
		}
		tr = tr.Add(h.Entry{Path: name, Kind: h.KFile, C: h.Content{{Src: 30, Len: size}}})
		ds := h.GenDamages(t, tr, 2, true, false)
		nr := rapid.IntRange(1, 2).Draw(t, "nranges")
		for i := 0; i < nr; i++ {
			b0 := rapid.OneOf(rapid.Just(0), rapid.IntRange(0, nb-1)).Draw(t, "from-block")
			ln := rapid.OneOf(rapid.SampledFrom([]int{64, 65, 66, 128, 129, 130}), rapid.IntRange(1, nb+1)).Draw(t, "nblocks")
			off := b0*h.BS + rapid.SampledFrom([]int{0, 0, 0, 1, h.BS - 1}).Draw(t, "in-block")
			ds = append(ds, h.Dmg{Path: name, Op: "scramble", Off: off, Len: ln*h.BS - rapid.SampledFrom([]int{0, 0, 1, 77}).Draw(t, "short-by")})
		}
		return Spec{Tree: tr, Damages: ds, SigFile: rapid.IntRange(0, 5).Draw(t, "signature-from-stream") == 0, Listen: rapid.Bool().Draw(t, "printer-listens")}
	},
	Check: check,
}

func TestLong(t *testing.T) { h.Run(t, propLong) }

func TestReplay(t *testing.T) {
	h.ReplayMain(t, map[string]h.Replayer{"wounds": h.ReplayerOf(prop), "longrun": h.ReplayerOf(propLong)})
}
