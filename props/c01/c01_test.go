// C01 Diff then apply reproduces the new build exactly.
package c01

import (
	"fmt"
	"os"
	"path/filepath"
	"testing"

	"verif/harness/h"

	"github.com/itchio/lake"

	"pgregory.net/rapid"
)

type Spec struct {
	Pair h.Pair `json:"pair"`
	Comp h.Comp `json:"comp"`
	// Src, when not empty, makes the differ read the new build through readers
	// that slice their reads and (first byte odd) return their last bytes
	// together with io.EOF, as zip-backed and network pools do.
	Src []byte `json:"src,omitempty"`
	// SigFile: the old build's signature is not computed from the old directory but read back from the
	// signature stream a previous diff (nothing -> old build, same compression) wrote for it, the way
	// butler diffs against a downloaded signature.
	SigFile bool `json:"sig_file,omitempty"`
	// Stale: the output directory is not empty - every file of the new build already exists there with
	// other, longer content (the fresh bowl must truncate pre-existing files)
	Stale bool `json:"stale,omitempty"`
	// Peek > 0: the pool over the old build has been used before the application (Peek bytes of old file
	// PeekIdx read through GetReadSeeker): its cached handle is not at offset 0
	Peek    int `json:"peek,omitempty"`
	PeekIdx int `json:"peek_idx,omitempty"`
	// UsedContext: the DiffContext has written a patch for another pair before (the new build against
	// itself); only its exported target fields are changed for the diff under test
	UsedContext bool `json:"used_context,omitempty"`
}

// GenComp draws a compression setting over all registered algorithms and the
// qualities their compressors accept (gzip -2..9, brotli 0..11); out-of-range
// gzip levels are drawn too (rarely) and must be *rejected* by WritePatch, not
// produce an unreadable patch.
func GenComp(t *rapid.T) h.Comp {
	switch rapid.IntRange(0, 9).Draw(t, "algo") {
	case 0, 1, 2:
		return h.Comp{Algo: 0, Q: rapid.IntRange(0, 9).Draw(t, "q-none")}
	case 3, 4, 5:
		return h.Comp{Algo: 2, Q: rapid.IntRange(-2, 9).Draw(t, "q-gzip")}
	case 6:
		return h.Comp{Algo: 2, Q: rapid.SampledFrom([]int{-3, 10, 100}).Draw(t, "q-gzip-bad")}
	default:
		// brotli 10/11 are very slow; keep them rare
		q := rapid.IntRange(0, 23).Draw(t, "q-brotli")
		if q > 11 {
			q = q % 10
		}
		return h.Comp{Algo: 1, Q: q}
	}
}

func check(s Spec) h.Result {
	d := h.TempDir("c01")
	defer os.RemoveAll(d)
	od, nd, out := filepath.Join(d, "old"), filepath.Join(d, "new"), filepath.Join(d, "out")
	if err := s.Pair.Old.Write(od); err != nil {
		return h.Result{Skip: "cannot write old tree: " + err.Error()}
	}
	if err := s.Pair.New.Write(nd); err != nil {
		return h.Result{Skip: "cannot write new tree: " + err.Error()}
	}
	cl := s.Pair.Classes()
	cl = append(cl, "comp:"+[]string{"none", "brotli", "gzip"}[s.Comp.Algo])
	var dopts *h.DiffOpts
	if len(s.Src) > 0 {
		cl = append(cl, "source:sliced-reads")
		if s.Src[0]&1 == 1 {
			cl = append(cl, "source:last-bytes-with-EOF")
		}
		j := h.NewJitter(s.Src, 0)
		dopts = &h.DiffOpts{WrapPool: func(p lake.Pool) lake.Pool { return &h.JitterPool{Pool: p, J: j} }}
	}
	if s.SigFile && !(s.Comp.Algo == 2 && (s.Comp.Q < -2 || s.Comp.Q > 9)) {
		ed := filepath.Join(d, "empty")
		os.MkdirAll(ed, 0o755)
		prev, err := h.Diff(ed, od, s.Comp, nil)
		if err != nil {
			return h.Failf("diff nothing -> old build failed: %v", err)
		}
		if dopts == nil {
			dopts = &h.DiffOpts{}
		}
		dopts.TargetSig = prev.Sig
		cl = append(cl, "old-signature:read-back-from-a-signature-stream")
	}
	if s.UsedContext {
		if dopts == nil {
			dopts = &h.DiffOpts{}
		}
		dopts.UsedBefore = true
		cl = append(cl, "differ:context-used-for-another-pair-before")
	}
	df, err := h.Diff(od, nd, s.Comp, dopts)
	if err != nil {
		if s.Comp.Algo == 2 && (s.Comp.Q < -2 || s.Comp.Q > 9) {
			return h.Result{Skip: "compressor rejects this quality (allowed by the statement)"}
		}
		return h.Failf("diff failed: %v", err)
	}
	if s.Comp.Algo == 2 && (s.Comp.Q < -2 || s.Comp.Q > 9) {
		cl = append(cl, "comp:gzip-out-of-range-accepted")
	}
	dp, err := h.DecodePatch(df.Patch)
	if err != nil {
		return h.Failf("patch written by WritePatch cannot be decoded: %v", err)
	}
	st := dp.Stats()
	if st.Ranges > 0 {
		cl = append(cl, "op:blockrange")
	}
	if st.Datas > 0 {
		cl = append(cl, "op:data")
	}
	if st.WholeFile > 0 {
		cl = append(cl, "op:wholefile")
	}
	if st.WholeFileRenamed > 0 {
		cl = append(cl, "op:wholefile-renamed")
	}
	if st.ShortTailRange > 0 {
		cl = append(cl, "op:range-ending-in-short-block")
	}
	if st.MaxData >= 4<<20 {
		cl = append(cl, "op:data-run>=4MiB")
	}
	if s.Stale {
		n := 0
		for _, e := range s.Pair.New {
			if e.Kind != h.KFile {
				continue
			}
			fp := filepath.Join(out, filepath.FromSlash(e.Path))
			if os.MkdirAll(filepath.Dir(fp), 0o755) == nil {
				junk := h.Content{{Src: 9, Off: 31, Len: e.C.Len() + 1 + (e.C.Len()*7)%5000}}.Bytes()
				if os.WriteFile(fp, junk, 0o644) == nil {
					n++
				}
			}
		}
		if n > 0 {
			cl = append(cl, "output:pre-existing-longer-files")
		}
	}
	var aopts *h.ApplyOpts
	if s.Peek > 0 {
		aopts = &h.ApplyOpts{Peek: s.Peek, PeekIdx: s.PeekIdx}
		cl = append(cl, "old-pool:handed-over-after-use")
	}
	if err := h.ApplyFresh(df.Patch, od, out, aopts); err != nil {
		return h.Result{Fail: fmt.Sprintf("fresh apply failed: %v", err), Classes: cl}
	}
	if m := h.CheckDir(out, s.Pair.New, false); m != "" {
		return h.Result{Fail: "fresh apply result differs from the new build: " + m, Classes: cl}
	}
	nt := (st.Ranges > 0 && st.Datas > 0) || st.WholeFileRenamed > 0
	return h.Result{Classes: cl, NonTrivial: nt}
}

var prop = h.Prop[Spec]{
	ID: "C01", Name: "roundtrip",
	Gen: func(t *rapid.T) Spec {
		s := Spec{Pair: h.GenPair(t, h.GenOpts{KindChange: true, Large: true}), Comp: GenComp(t)}
		if rapid.IntRange(0, 2).Draw(t, "sliced-source") == 0 {
			s.Src = rapid.SliceOfN(rapid.Byte(), 1, 12).Draw(t, "src-jitter")
		}
		s.SigFile = rapid.IntRange(0, 3).Draw(t, "old-signature-from-stream") == 0
		s.Stale = rapid.IntRange(0, 4).Draw(t, "stale-output") == 0
		s.UsedContext = rapid.IntRange(0, 4).Draw(t, "used-diff-context") == 0
		if rapid.IntRange(0, 3).Draw(t, "used-old-pool") == 0 {
			s.Peek = rapid.SampledFrom([]int{1, 4113, 1 << 30}).Draw(t, "peek-bytes")
			s.PeekIdx = rapid.IntRange(0, 7).Draw(t, "peek-idx")
		}
		return s
	},
	Check: check,
}

func TestProp(t *testing.T) { h.Run(t, prop) }

func TestReplay(t *testing.T) {
	h.ReplayMain(t, map[string]h.Replayer{"roundtrip": h.ReplayerOf(prop)})
}
