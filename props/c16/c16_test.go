// C16 Validation always terminates and a clean verdict is never caused by interruption.
package c16

import (
	"context"
	"fmt"
	"os"
	"path/filepath"
	"runtime"
	"strings"
	"sync/atomic"
	"testing"
	"time"

	"verif/harness/h"

	"github.com/itchio/headway/state"
	"github.com/itchio/lake/tlc"
	"github.com/itchio/wharf/archiver"
	"github.com/itchio/wharf/pwr"
	"pgregory.net/rapid"
)

type Spec struct {
	Tree     h.Tree  `json:"tree,omitempty"`
	Many     int     `json:"many,omitempty"`     // >0: Many dirs + Many small files + 2 multi-block files instead of Tree
	ManyDmg  string  `json:"many_dmg,omitempty"` // none | all-gone | all-files-flipped | last-file | dirs-gone | big-first-block
	BigMiB   int     `json:"big_mib,omitempty"`  // >0: one file of that many MiB (> 1024 blocks) followed by a small one, instead of Tree
	Damages  []h.Dmg `json:"damages,omitempty"`
	Consumer string  `json:"consumer"`            // failfast | woundsfile | woundsfile-unwritable | heal | heal-partial | heal-missing | printer
	CancelAt int     `json:"cancel_at"`           // -1 never, 0 before start, n>0 inside the n-th consumer callback
	CancelUs int     `json:"cancel_us,omitempty"` // >0: cancel after this many microseconds instead
	Procs    int     `json:"procs"`
	// DropHashes > 0: the signature handed to Validate lacks its last DropHashes block hashes (a signature file
	// cut at a message boundary reads back without error): the file worker fails; that must never look like "valid"
	DropHashes int `json:"drop_hashes,omitempty"`
	// LastBigKiB > 0: instead of Tree, a small file followed by one of that many KiB, which is the only damaged
	// entry (Damages): the healer is still copying the last wounded file when the scan is over
	LastBigKiB int `json:"last_big_kib,omitempty"`
}

func manyTree(n int) h.Tree {
	var tr h.Tree
	for i := 0; i < n; i++ {
		tr = append(tr, h.Entry{Path: fmt.Sprintf("d%04d", i), Kind: h.KDir})
	}
	for i := 0; i < n; i++ {
		tr = append(tr, h.Entry{Path: fmt.Sprintf("f%04d", i), Kind: h.KFile, C: h.Content{{Src: 1 + i%6, Off: i * 32, Len: 20}}})
	}
	for i := 0; i < n/10; i++ {
		tr = append(tr, h.Entry{Path: fmt.Sprintf("l%04d", i), Kind: h.KLink, Dest: "f0000"})
	}
	tr = append(tr, h.Entry{Path: "big", Kind: h.KFile, C: h.Content{{Src: 7, Off: 0, Len: 5*h.BS + 3}}})
	tr = append(tr, h.Entry{Path: "zlast", Kind: h.KFile, C: h.Content{{Src: 8, Off: 0, Len: 2 * h.BS}}})
	return tr
}

func indexOf(c *tlc.Container) func(kind, path string) int {
	return func(kind, path string) int { return 0 }
}

func pwrGoroutines() int {
	buf := make([]byte, 1<<22)
	n := runtime.Stack(buf, true)
	c := 0
	for _, g := range strings.Split(string(buf[:n]), "\n\n") {
		if strings.Contains(g, "itchio/wharf/pwr.") && !strings.Contains(g, "c16.pwrGoroutines") {
			c++
		}
	}
	return c
}

func check(s Spec) h.Result {
	d := h.TempDir("c16")
	defer os.RemoveAll(d)
	tree := s.Tree
	if s.Many > 0 {
		tree = manyTree(s.Many)
	}
	if s.BigMiB > 0 {
		// more blocks in one file than the wound channel has slots; not the last file
		tree = h.Tree{
			{Path: "a-big", Kind: h.KFile, C: h.Content{{Src: 0, Len: s.BigMiB << 20}}},
			{Path: "z-small", Kind: h.KFile, C: h.Content{{Src: 1, Len: 1000}}},
		}
	}
	if s.LastBigKiB > 0 {
		tree = h.Tree{
			{Path: "a-small", Kind: h.KFile, C: h.Content{{Src: 1, Len: 1000}}},
			{Path: "z-big", Kind: h.KFile, C: h.Content{{Src: 0, Len: s.LastBigKiB << 10}}},
		}
	}
	ref, work := filepath.Join(d, "ref"), filepath.Join(d, "work")
	if err := tree.Write(ref); err != nil {
		return h.Result{Skip: "cannot write tree"}
	}
	c, hs, err := h.Sign(ref)
	if err != nil {
		return h.Failf("signing failed: %v", err)
	}
	si := &pwr.SignatureInfo{Container: c, Hashes: hs}
	if err := tree.Write(work); err != nil {
		return h.Result{Skip: "cannot write work copy"}
	}
	cl := []string{"consumer:" + s.Consumer}
	if s.DropHashes > 0 && len(hs) > 0 {
		k := s.DropHashes
		if k > len(hs) {
			k = len(hs)
		}
		si = &pwr.SignatureInfo{Container: c, Hashes: hs[:len(hs)-k]}
		cl = append(cl, "signature:last-hashes-missing")
	}
	if s.BigMiB > 0 {
		cl = append(cl, "tree:file->1024-blocks", "many-damage:"+s.ManyDmg)
		if s.ManyDmg == "big-first-block" {
			h.ApplyDmg(work, h.Dmg{Path: "a-big", Op: "flip", Off: 5})
		}
	} else if s.Many > 0 {
		cl = append(cl, "tree:>1024-entries", "many-damage:"+s.ManyDmg)
		switch s.ManyDmg {
		case "all-gone":
			es, _ := os.ReadDir(work)
			for _, e := range es {
				os.RemoveAll(filepath.Join(work, e.Name()))
			}
		case "dirs-gone":
			for i := 0; i < s.Many; i++ {
				os.RemoveAll(filepath.Join(work, fmt.Sprintf("d%04d", i)))
			}
			for i := 0; i < s.Many/10; i++ {
				os.Remove(filepath.Join(work, fmt.Sprintf("l%04d", i)))
			}
		case "all-files-flipped":
			for i := 0; i < s.Many; i++ {
				os.WriteFile(filepath.Join(work, fmt.Sprintf("f%04d", i)), []byte("xxxxxxxxxxxxxxxxxxxx"), 0o644)
			}
		case "last-file":
			h.ApplyDmg(work, h.Dmg{Path: "zlast", Op: "flip", Off: h.BS + 5})
		}
	} else {
		for _, dm := range s.Damages {
			if err := h.ApplyDmg(work, dm); err != nil {
				return h.Result{Skip: "cannot damage: " + err.Error()}
			}
		}
		cl = append(cl, h.DmgClasses(tree, s.Damages)...)
		if s.LastBigKiB > 0 {
			cl = append(cl, "tree:only-the-last-file-(>256KiB)-damaged")
		}
	}
	// independent verdict on the directory, before validation runs
	devs := h.Observe(work, tree, indexOf(c))
	_, lerr := os.Lstat(work)
	deviates := len(devs) > 0 || lerr != nil
	if deviates {
		cl = append(cl, "dir:deviates")
	} else {
		cl = append(cl, "dir:identical")
	}
	// archives for the healer variants
	zp := filepath.Join(d, "full.zip")
	switch s.Consumer {
	case "heal", "heal-partial":
		src := ref
		if s.Consumer == "heal-partial" {
			// an archive lacking most entries: healing fails after some wounds
			src = filepath.Join(d, "partial")
			var pt h.Tree
			for i, e := range tree {
				if e.Kind == h.KFile && i%3 == 0 {
					pt = append(pt, e)
				}
			}
			if err := pt.Write(src); err != nil {
				return h.Result{Skip: "cannot write partial tree"}
			}
		}
		fw, err := os.Create(zp)
		if err != nil {
			return h.Result{Skip: "cannot create archive"}
		}
		_, err = archiver.CompressZip(fw, src, h.Quiet())
		fw.Close()
		if err != nil {
			return h.Failf("CompressZip failed: %v", err)
		}
	}
	vctx := &pwr.ValidatorContext{}
	switch s.Consumer {
	case "failfast":
		vctx.FailFast = true
	case "woundsfile":
		vctx.WoundsPath = filepath.Join(d, "w.pww")
	case "woundsfile-unwritable":
		vctx.WoundsPath = filepath.Join(d, "no-such-dir", "w.pww")
	case "heal", "heal-partial":
		vctx.HealPath = "archive," + zp
	case "heal-missing":
		vctx.HealPath = "archive," + filepath.Join(d, "nope.zip")
	case "printer":
	}
	if s.Procs > 0 {
		defer runtime.GOMAXPROCS(runtime.GOMAXPROCS(s.Procs))
	}
	ctx, cancel := context.WithCancel(context.Background())
	defer cancel()
	var calls int64
	tick := func() {
		if s.CancelAt > 0 && atomic.AddInt64(&calls, 1) == int64(s.CancelAt) {
			cancel()
			// give the other goroutines time to notice before the caller of this
			// callback goes on: cancellation lands "between two steps" of the caller
			time.Sleep(time.Millisecond)
		}
	}
	vctx.Consumer = &state.Consumer{
		OnProgress:      func(float64) { tick() },
		OnProgressLabel: func(string) { tick() },
		OnMessage:       func(string, string) { tick() },
	}
	switch {
	case s.CancelUs > 0:
		cl = append(cl, "cancel:after-delay")
		go func() {
			time.Sleep(time.Duration(s.CancelUs) * time.Microsecond)
			cancel()
		}()
	case s.CancelAt == 0:
		cl = append(cl, "cancel:before-start")
		cancel()
	case s.CancelAt > 0:
		cl = append(cl, "cancel:in-callback")
	default:
		cl = append(cl, "cancel:never")
	}
	// the watchdog of the runner is the termination oracle: Validate is called
	// on this goroutine and must return.
	verr := vctx.Validate(ctx, work, si)
	cancelled := ctx.Err() != nil
	if s.Consumer == "failfast" && verr == nil && deviates {
		return h.Result{Fail: fmt.Sprintf("fail-fast validation returned nil for a directory that deviates from the signed build (%s); cancelled=%v cancel_at=%d cancel_us=%d",
			describe(devs, lerr), cancelled, s.CancelAt, s.CancelUs), Classes: cl}
	}
	if s.Consumer == "failfast" && verr != nil && !deviates && !cancelled && s.DropHashes == 0 {
		return h.Result{Fail: fmt.Sprintf("fail-fast validation of an identical directory, never cancelled, returned an error: %v", verr), Classes: cl}
	}
	if s.Consumer == "heal" && verr == nil {
		// a nil from a validation that heals says "whatever was wrong has been put right" (C06); an
		// interruption may turn that into an error, never into a nil over a directory that is still wrong
		after := h.Observe(work, tree, indexOf(c))
		_, aerr := os.Lstat(work)
		cl = append(cl, "heal:returned-nil")
		if cancelled {
			cl = append(cl, "heal:returned-nil-though-cancelled")
		}
		if len(after) > 0 || aerr != nil {
			return h.Result{Fail: fmt.Sprintf("validation with an archive healer returned nil but the directory still deviates from the signed build (%s); before: %s; cancelled=%v cancel_at=%d cancel_us=%d",
				describe(after, aerr), describe(devs, lerr), cancelled, s.CancelAt, s.CancelUs), Classes: cl}
		}
	}
	if verr != nil {
		cl = append(cl, "outcome:error")
	} else {
		cl = append(cl, "outcome:nil")
	}
	extra := map[string]int{}
	if s.CancelAt%7 == 3 || s.Many > 0 || s.BigMiB > 0 {
		// sampled observation, reported in the evidence and not judged: goroutines
		// still inside wharf/pwr a little after Validate returned
		cancel()
		time.Sleep(100 * time.Millisecond)
		extra["leak_probe_runs"] = 1
		if n := pwrGoroutines(); n > 0 {
			extra["leak_probe_runs_with_pwr_goroutines_left"] = 1
			extra["pwr_goroutines_left_total"] = n
		}
	}
	nt := deviates && (cancelled || (verr != nil && s.Consumer != "failfast"))
	return h.Result{Classes: cl, NonTrivial: nt, Extra: extra}
}

func describe(devs []h.Deviation, lerr error) string {
	if lerr != nil {
		return "build directory missing"
	}
	if len(devs) == 0 {
		return "no deviation"
	}
	dv := devs[0]
	return fmt.Sprintf("%d deviating entries, first: %s %s missing=%v wrong-kind=%v diffs=%v", len(devs), dv.Kind, dv.Path, dv.Missing, dv.WrongKnd, dv.DiffOffsets)
}

var consumers = []string{"failfast", "failfast", "failfast", "woundsfile", "woundsfile-unwritable", "heal", "heal-partial", "heal-missing", "printer"}

func genCancel(t *rapid.T, s *Spec) {
	switch rapid.IntRange(0, 5).Draw(t, "cancel-kind") {
	case 0:
		s.CancelAt = -1
	case 1:
		s.CancelAt = 0
	case 2, 3:
		s.CancelAt = rapid.OneOf(rapid.IntRange(1, 12), rapid.SampledFrom([]int{50, 200, 1500, 5000})).Draw(t, "cancel-at")
	default:
		s.CancelAt = -1
		s.CancelUs = rapid.SampledFrom([]int{1, 20, 100, 500, 2000, 10000}).Draw(t, "cancel-us")
	}
}

var prop = h.Prop[Spec]{
	ID: "C16", Name: "terminate",
	Gen: func(t *rapid.T) Spec {
		s := Spec{Consumer: rapid.SampledFrom(consumers).Draw(t, "consumer")}
		s.Tree = h.GenOldTree(t, h.GenOpts{MaxOld: 7})
		s.Damages = h.GenDamages(t, s.Tree, 3, true, true)
		genCancel(t, &s)
		s.Procs = rapid.SampledFrom([]int{1, 2, 4, 16}).Draw(t, "gomaxprocs")
		if rapid.IntRange(0, 7).Draw(t, "short-signature") == 0 {
			s.DropHashes = rapid.IntRange(1, 3).Draw(t, "drop-hashes")
		}
		if rapid.IntRange(0, 11).Draw(t, "last-big") == 0 {
			// only the last file is damaged and it takes the healer several copy steps; cancellation
			// mostly lands in one of the first callbacks, among them the healer's progress reports
			s.Tree, s.DropHashes = nil, 0
			s.LastBigKiB = rapid.SampledFrom([]int{300, 1024, 3000, 8192}).Draw(t, "last-big-kib")
			s.Damages = []h.Dmg{{Path: "z-big", Op: rapid.SampledFrom([]string{"delete", "flip", "truncate"}).Draw(t, "last-big-dmg"), Off: 5}}
			if rapid.Bool().Draw(t, "last-big-heal") {
				s.Consumer = "heal"
			}
			if rapid.Bool().Draw(t, "last-big-cancel-in-callback") {
				s.CancelUs, s.CancelAt = 0, rapid.IntRange(1, 24).Draw(t, "last-big-cancel-at")
			}
		}
		return s
	},
	Check:    check,
	Watchdog: 60 * time.Second,
}

// more wounds than the 1024-slot wound channel holds
var propMany = h.Prop[Spec]{
	ID: "C16", Name: "manywounds",
	Gen: func(t *rapid.T) Spec {
		s := Spec{Consumer: rapid.SampledFrom(consumers).Draw(t, "consumer")}
		if rapid.IntRange(0, 2).Draw(t, "big-file") == 0 {
			s.BigMiB = rapid.SampledFrom([]int{66, 80, 96}).Draw(t, "big-mib")
			s.ManyDmg = rapid.SampledFrom([]string{"big-first-block", "big-first-block", "none"}).Draw(t, "big-dmg")
		} else {
			s.Many = rapid.SampledFrom([]int{1100, 1300, 2100}).Draw(t, "many")
			s.ManyDmg = rapid.SampledFrom([]string{"none", "all-gone", "dirs-gone", "all-files-flipped", "last-file"}).Draw(t, "many-dmg")
		}
		genCancel(t, &s)
		s.Procs = rapid.SampledFrom([]int{1, 2, 16}).Draw(t, "gomaxprocs")
		return s
	},
	Check:    check,
	Watchdog: 90 * time.Second,
}

func TestProp(t *testing.T) { h.Run(t, prop) }
func TestMany(t *testing.T) { h.Run(t, propMany) }

func TestReplay(t *testing.T) {
	h.ReplayMain(t, map[string]h.Replayer{"terminate": h.ReplayerOf(prop), "manywounds": h.ReplayerOf(propMany)})
}
