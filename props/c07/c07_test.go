// C07 Optimizing a patch never changes what it produces.
package c07

import (
	"fmt"
	"os"
	"path/filepath"
	"testing"

	"verif/harness/h"

	"pgregory.net/rapid"
)

type Spec struct {
	Pair h.Pair      `json:"pair"`
	Comp h.Comp      `json:"comp"`
	Opt  h.OptParams `json:"opt"`
}

func genComp(t *rapid.T, label string) h.Comp {
	switch rapid.IntRange(0, 5).Draw(t, label+"-algo") {
	case 0, 1, 2:
		return h.Comp{}
	case 3, 4:
		return h.Comp{Algo: 2, Q: rapid.IntRange(-2, 9).Draw(t, label+"-q-gzip")}
	default:
		return h.Comp{Algo: 1, Q: rapid.IntRange(0, 6).Draw(t, label+"-q-brotli")}
	}
}

func check(s Spec) h.Result {
	d := h.TempDir("c07")
	defer os.RemoveAll(d)
	od, nd := filepath.Join(d, "old"), filepath.Join(d, "new")
	if err := s.Pair.Old.Write(od); err != nil {
		return h.Result{Skip: "cannot write old tree"}
	}
	if err := s.Pair.New.Write(nd); err != nil {
		return h.Result{Skip: "cannot write new tree"}
	}
	cl := []string{}
	if s.Opt.ForceMapAll {
		cl = append(cl, "opt:ForceMapAll")
	}
	if s.Opt.RediffSizeLimit > 0 {
		cl = append(cl, "opt:size-limit")
	}
	cl = append(cl, fmt.Sprintf("opt:partitions=%d", s.Opt.Partitions))
	if s.Opt.Peek > 0 {
		cl = append(cl, "pools:handed-over-after-use")
	}
	for _, e := range s.Pair.New {
		if e.Kind == h.KFile {
			n := e.C.Len()
			if n <= 16 {
				cl = append(cl, "new-file:0..16B")
			}
			if n > 0 && n < s.Opt.Partitions {
				cl = append(cl, "new-file:shorter-than-partitions")
			}
		}
	}
	for _, e := range s.Pair.Old {
		if e.Kind == h.KFile && e.C.Len() <= 4 {
			cl = append(cl, "old-file:empty-or-tiny")
			break
		}
	}
	df, err := h.Diff(od, nd, s.Comp, nil)
	if err != nil {
		return h.Failf("diff failed: %v", err)
	}
	opt, err := h.Optimize(df.Patch, od, nd, s.Opt)
	if err != nil {
		return h.Result{Fail: fmt.Sprintf("optimizer failed on a valid patch: %v", err), Classes: cl}
	}
	dp, err := h.DecodePatch(opt)
	if err != nil {
		return h.Result{Fail: fmt.Sprintf("optimized patch cannot be decoded: %v", err), Classes: cl}
	}
	nbs, other, excluded := 0, 0, 0
	for _, sr := range dp.Series {
		if sr.Bsdiff {
			nbs++
			if sr.Target >= 0 && int(sr.Target) < len(dp.Old.Files) && dp.Old.Files[sr.Target].Path != dp.New.Files[sr.FileIndex].Path {
				other++
			}
		} else if s.Opt.RediffSizeLimit > 0 && dp.New.Files[sr.FileIndex].Size > s.Opt.RediffSizeLimit {
			excluded++
		}
	}
	if nbs > 0 {
		cl = append(cl, "series:bsdiff")
	}
	if other > 0 {
		cl = append(cl, "series:bsdiff-against-differently-named-old-file")
	}
	if excluded > 0 {
		cl = append(cl, "series:excluded-by-size-limit")
	}
	out := filepath.Join(d, "out")
	if err := h.ApplyFresh(opt, od, out, nil); err != nil {
		return h.Result{Fail: fmt.Sprintf("fresh apply of the optimized patch failed: %v", err), Classes: cl}
	}
	if m := h.CheckDir(out, s.Pair.New, false); m != "" {
		return h.Result{Fail: "fresh apply of the optimized patch differs from the new build: " + m, Classes: cl}
	}
	work := filepath.Join(d, "work")
	if err := s.Pair.Old.Write(work); err != nil {
		return h.Result{Skip: "cannot write work copy"}
	}
	if err := h.ApplyInPlace(opt, work, filepath.Join(d, "stage"), nil); err != nil {
		return h.Result{Fail: fmt.Sprintf("in-place apply of the optimized patch failed: %v", err), Classes: cl}
	}
	if m := h.CheckDir(work, s.Pair.New, false); m != "" {
		return h.Result{Fail: "in-place apply of the optimized patch differs from the new build: " + m, Classes: cl}
	}
	return h.Result{Classes: cl, NonTrivial: nbs > 0}
}

var prop = h.Prop[Spec]{
	ID: "C07", Name: "optimize",
	Gen: func(t *rapid.T) Spec {
		s := Spec{Pair: h.GenPair(t, h.GenOpts{Tiny: true, PathOps: rapid.Bool().Draw(t, "pathops"), ConstCap: 16384}), Comp: genComp(t, "in")}
		s.Opt = h.OptParams{
			Partitions:  rapid.IntRange(0, 16).Draw(t, "partitions"),
			Concurrency: rapid.IntRange(-1, 4).Draw(t, "concurrency"),
			ForceMapAll: rapid.IntRange(0, 3).Draw(t, "force") == 0,
			Comp:        genComp(t, "out"),
		}
		if rapid.IntRange(0, 2).Draw(t, "used-pools") == 0 {
			s.Opt.Peek = rapid.SampledFrom([]int{1, 4113, 1 << 30}).Draw(t, "peek-bytes")
			s.Opt.PeekOld = rapid.IntRange(0, 7).Draw(t, "peek-old")
			s.Opt.PeekNew = rapid.IntRange(0, 7).Draw(t, "peek-new")
		}
		if rapid.IntRange(0, 4).Draw(t, "limit") == 0 {
			s.Opt.RediffSizeLimit = int64(rapid.SampledFrom([]int{1, 16, 100, h.BS, 2*h.BS + 1}).Draw(t, "limit-bytes"))
		}
		return s
	},
	Check: check,
}

func TestProp(t *testing.T) { h.Run(t, prop) }

func TestReplay(t *testing.T) {
	h.ReplayMain(t, map[string]h.Replayer{"optimize": h.ReplayerOf(prop)})
}
