// C08 Data already present in the old build is not sent again.
package c08

import (
	"bytes"
	"fmt"
	"os"
	"path/filepath"
	"sort"
	"testing"

	"verif/harness/h"

	"github.com/itchio/wharf/pwr"
	"pgregory.net/rapid"
)

// Edit replaces old[Off:Off+Del] by Ins fresh bytes (Del==Ins: overwrite;
// Del==0: insertion; Ins==0: deletion). Offsets are in old-file coordinates,
// sorted and non-overlapping.
type Edit struct {
	Off int `json:"off"`
	Del int `json:"del"`
	Ins int `json:"ins"`
}

type File struct {
	Path  string   `json:"path"`
	Size  int      `json:"size"`
	To    []string `json:"to"`              // new paths that get this content (empty: removed)
	Edits []Edit   `json:"edits,omitempty"` // applied to the copy at To[0]
	// Kind (identical/renames families only): "" unique high-entropy stream; "zero", "const" (0x20), "mixed"
	// (zero and 0x20 blocks alternating): blocks whose rolling hash is 0, like the entry that signs an empty file
	Kind string `json:"kind,omitempty"`
	// Twin: the old build also holds Path+".twin" - the same content with three bytes of block TwinBlock changed
	// by +1,-2,+1 (same rolling hash, different strong hash) - and the new build keeps it next to To[0]
	Twin      bool `json:"twin,omitempty"`
	TwinBlock int  `json:"twin_block,omitempty"`
}

type Spec struct {
	Family string `json:"family"` // identical | renames | edits
	Files  []File `json:"files"`
	Comp   h.Comp `json:"comp"`
	// SigFile: the old build's signature is read back from the signature stream that a previous diff
	// (nothing -> old build) wrote, as butler does with a downloaded signature, instead of being computed
	SigFile bool `json:"sig_file,omitempty"`
	// Again: the same DiffContext writes the patch a second time; the second call must reuse just as much
	Again bool `json:"again,omitempty"`
}

func oldContent(i int, f File) h.Content {
	if f.Size == 0 {
		return h.Content{}
	}
	switch f.Kind {
	case "zero":
		return h.Content{{Src: 0, Len: f.Size}}
	case "const":
		return h.Content{{Src: -1 - 0x20, Len: f.Size}}
	case "mixed":
		var c h.Content
		for off, k := 0, 0; off < f.Size; off, k = off+h.BS, k+1 {
			n := h.BS
			if off+n > f.Size {
				n = f.Size - off
			}
			src := 0
			if k%2 == 1 {
				src = -1 - 0x20
			}
			c = append(c, h.Piece{Src: src, Len: n})
		}
		return c
	}
	return h.Content{{Src: 10 + i, Off: 0, Len: f.Size}}
}

func newContent(i int, f File) (h.Content, int) {
	oc := oldContent(i, f)
	if len(f.Edits) == 0 {
		return oc, 0
	}
	var out h.Content
	pos, intro := 0, 0
	for j, e := range f.Edits {
		if e.Off < pos || e.Off > f.Size {
			continue
		}
		out = append(out, oc.Slice(pos, e.Off)...)
		if e.Ins > 0 {
			out = append(out, h.Piece{Src: 60 + i, Off: j * (1 << 20), Len: e.Ins})
			intro += e.Ins
		}
		pos = e.Off + e.Del
		if pos > f.Size {
			pos = f.Size
		}
	}
	out = append(out, oc.Slice(pos, f.Size)...)
	if out == nil {
		out = h.Content{}
	}
	return out, intro
}

func check(s Spec) h.Result {
	var old, nw h.Tree
	type expect struct {
		equal bool
		k     int
		intro int
		size  int
		chg   bool
	}
	exp := map[string]expect{}
	var cl []string
	cl = append(cl, "family:"+s.Family)
	if s.SigFile {
		cl = append(cl, "old-signature:read-back-from-a-signature-stream")
	}
	type twin struct {
		oldPath, newPath string
		off              int
	}
	var twins []twin
	if len(s.Files) >= 2 && len(s.Files[0].To) == 1 && len(s.Files[1].To) == 1 && s.Files[0].To[0] == s.Files[1].Path && s.Files[1].To[0] == s.Files[0].Path {
		cl = append(cl, "renames:two-files-trade-places")
		if s.Files[0].Size == s.Files[1].Size && s.Files[0].Size > 4<<20 {
			cl = append(cl, "renames:two-files->4MiB-of-equal-size-trade-places")
		}
	}
	for i, f := range s.Files {
		old = append(old, h.Entry{Path: f.Path, Kind: h.KFile, C: oldContent(i, f)})
		if f.Twin && f.Size > 0 && s.Family != "edits" {
			tw := twin{oldPath: f.Path + ".twin", off: (f.TwinBlock % ((f.Size + h.BS - 1) / h.BS)) * h.BS}
			old = append(old, h.Entry{Path: tw.oldPath, Kind: h.KFile, C: oldContent(i, f)})
			if len(f.To) > 0 && nw.Get(f.To[0]+".twin") == nil {
				tw.newPath = f.To[0] + ".twin"
				nw = append(nw, h.Entry{Path: tw.newPath, Kind: h.KFile, C: oldContent(i, f)})
				exp[tw.newPath] = expect{equal: true, size: f.Size}
			}
			twins = append(twins, tw)
			cl = append(cl, "old:two-files-differing-in-a-block-with-the-same-weak-hash")
		}
		if f.Kind != "" && f.Size >= h.BS {
			cl = append(cl, "content:blocks-with-weak-hash-0")
		}
		for j, to := range f.To {
			if nw.Get(to) != nil {
				continue
			}
			c := oldContent(i, f)
			ex := expect{equal: true, size: f.Size}
			if j == 0 && len(f.Edits) > 0 {
				var intro int
				c, intro = newContent(i, f)
				lenChange := false
				for _, e := range f.Edits {
					if e.Del != e.Ins {
						lenChange = true
					}
				}
				ex = expect{equal: false, k: len(f.Edits), intro: intro, size: f.Size, chg: lenChange}
			}
			nw = append(nw, h.Entry{Path: to, Kind: h.KFile, C: c})
			exp[to] = ex
		}
	}
	d := h.TempDir("c08")
	defer os.RemoveAll(d)
	od, nd := filepath.Join(d, "old"), filepath.Join(d, "new")
	if err := old.Write(od); err != nil {
		return h.Result{Skip: "cannot write old tree"}
	}
	if err := nw.Write(nd); err != nil {
		return h.Result{Skip: "cannot write new tree"}
	}
	for _, tw := range twins {
		h.ApplyDmg(od, h.Dmg{Path: tw.oldPath, Op: "collide", Off: tw.off})
		if tw.newPath != "" {
			h.ApplyDmg(nd, h.Dmg{Path: tw.newPath, Op: "collide", Off: tw.off})
		}
	}
	var dopts *h.DiffOpts
	if s.SigFile {
		ed := filepath.Join(d, "empty")
		os.MkdirAll(ed, 0o755)
		prev, err := h.Diff(ed, od, s.Comp, nil)
		if err != nil {
			return h.Failf("diff nothing -> old build failed: %v", err)
		}
		dopts = &h.DiffOpts{TargetSig: prev.Sig}
	}
	if s.Again {
		if dopts == nil {
			dopts = &h.DiffOpts{}
		}
		dopts.Again = true
		cl = append(cl, "differ:same-DiffContext-used-twice")
	}
	df, err := h.Diff(od, nd, s.Comp, dopts)
	if err != nil {
		return h.Failf("diff failed: %v", err)
	}
	if s.Again {
		if df.Fresh2 != df.Fresh || df.Reused2 != df.Reused {
			return h.Result{Fail: fmt.Sprintf("second WritePatch on the same DiffContext: %d fresh + %d reused bytes, the first call had %d + %d", df.Fresh2, df.Reused2, df.Fresh, df.Reused), Classes: cl}
		}
		if !bytes.Equal(df.Patch, df.Patch2) {
			return h.Result{Fail: fmt.Sprintf("second WritePatch on the same DiffContext wrote a different patch (%d vs %d bytes)", len(df.Patch2), len(df.Patch)), Classes: cl}
		}
		// the oracles below use the first call's counters
		df.Ctx.FreshBytes, df.Ctx.ReusedBytes = df.Fresh, df.Reused
	}
	dp, err := h.DecodePatch(df.Patch)
	if err != nil {
		return h.Failf("cannot decode patch: %v", err)
	}
	total := int64(nw.TotalSize())
	if df.Ctx.FreshBytes+df.Ctx.ReusedBytes != total {
		return h.Result{Fail: fmt.Sprintf("FreshBytes (%d) + ReusedBytes (%d) != size of the new build (%d)", df.Ctx.FreshBytes, df.Ctx.ReusedBytes, total), Classes: cl}
	}
	var sumFresh int64
	nt := false
	for _, sr := range dp.Series {
		f := dp.New.Files[sr.FileIndex]
		fresh := 0
		for _, op := range sr.Ops {
			if op.Type == pwr.SyncOp_DATA {
				fresh += len(op.Data)
			}
		}
		sumFresh += int64(fresh)
		ex, ok := exp[f.Path]
		if !ok {
			return h.Result{Fail: "patch names a new file the spec does not have: " + f.Path, Classes: cl}
		}
		if ex.equal {
			if fresh != 0 {
				return h.Result{Fail: fmt.Sprintf("%s has the same content as an old file (%d bytes) but the patch carries %d fresh bytes for it", f.Path, ex.size, fresh), Classes: cl}
			}
			continue
		}
		bound := ex.intro + (2*ex.k+2)*h.BS
		if fresh > bound {
			return h.Result{Fail: fmt.Sprintf("%s: %d localized edits introducing %d bytes into a %d-byte file, but the patch carries %d fresh bytes (> bound %d)", f.Path, ex.k, ex.intro, ex.size, fresh, bound), Classes: cl}
		}
		cl = append(cl, fmt.Sprintf("edits:k=%d", ex.k))
		if ex.size > 4<<20 {
			cl = append(cl, "edited-file:>4MiB")
		}
		if ex.chg {
			cl = append(cl, "edits:length-changing")
		}
		if ex.intro > 4<<20 {
			cl = append(cl, "edits:fresh-run>4MiB")
		}
		if ex.k >= 1 && ex.chg && ex.size >= 8*h.BS {
			nt = true
		}
	}
	if sumFresh != df.Ctx.FreshBytes {
		return h.Result{Fail: fmt.Sprintf("DiffContext.FreshBytes=%d but the patch's data ops carry %d bytes", df.Ctx.FreshBytes, sumFresh), Classes: cl}
	}
	if s.Family != "edits" {
		if sumFresh != 0 {
			return h.Result{Fail: fmt.Sprintf("family %s: every new file equals an old file, yet the patch carries %d fresh bytes", s.Family, sumFresh), Classes: cl}
		}
		// for these families a non-trivial case has at least one multi-block file at a new path or duplicated
		for _, f := range s.Files {
			if f.Size > h.BS && (len(f.To) > 1 || (len(f.To) == 1 && f.To[0] != f.Path) || s.Family == "identical") {
				nt = true
			}
		}
	}
	return h.Result{Classes: cl, NonTrivial: nt}
}

func genSize(t *rapid.T) int {
	switch rapid.IntRange(0, 19).Draw(t, "size-kind") {
	case 0:
		return rapid.SampledFrom([]int{0, 1, 2, 100}).Draw(t, "size-tiny")
	case 1, 2, 3, 4:
		return rapid.IntRange(1, 12).Draw(t, "size-blocks")*h.BS + rapid.SampledFrom([]int{-1, 0, 1, 17}).Draw(t, "size-delta")
	case 5:
		return rapid.SampledFrom([]int{64*h.BS + 5, 70 * h.BS, 80*h.BS - 1}).Draw(t, "size-big") // > 4 MiB
	default:
		return rapid.IntRange(1, 48*h.BS).Draw(t, "size")
	}
}

func genEdits(t *rapid.T, size int) []Edit {
	k := rapid.IntRange(0, 4).Draw(t, "k")
	var es []Edit
	for i := 0; i < k; i++ {
		var off int
		switch rapid.IntRange(0, 3).Draw(t, "off-kind") {
		case 0: // first / last block
			if rapid.Bool().Draw(t, "first") || size < h.BS {
				off = rapid.IntRange(0, min(size, h.BS)).Draw(t, "off-first")
			} else {
				off = rapid.IntRange(max(0, size-h.BS), size).Draw(t, "off-last")
			}
		case 1: // block edges
			nb := size / h.BS
			off = rapid.IntRange(0, nb).Draw(t, "off-block")*h.BS + rapid.SampledFrom([]int{-1, 0, 1}).Draw(t, "off-delta")
		default:
			off = rapid.IntRange(0, size).Draw(t, "off")
		}
		if off < 0 {
			off = 0
		}
		if off > size {
			off = size
		}
		n := rapid.OneOf(rapid.IntRange(1, 300), rapid.SampledFrom([]int{h.BS - 1, h.BS, h.BS + 1, 3 * h.BS}), rapid.IntRange(1, 70000)).Draw(t, "n")
		if rapid.IntRange(0, 11).Draw(t, "huge") == 0 {
			// a fresh run of more than 4MiB (the data-op limit / internal window) followed by old data
			n = rapid.SampledFrom([]int{4<<20 + 1, 4<<20 + h.BS + 3, 5 << 20, 9 << 20}).Draw(t, "n-huge")
		}
		e := Edit{Off: off}
		switch rapid.IntRange(0, 2).Draw(t, "edit-kind") {
		case 0:
			if off+n > size {
				n = size - off
			}
			e.Del, e.Ins = n, n
		case 1:
			e.Ins = n
		case 2:
			if off+n > size {
				n = size - off
			}
			e.Del = n
		}
		if e.Del == 0 && e.Ins == 0 {
			continue
		}
		es = append(es, e)
	}
	sort.Slice(es, func(i, j int) bool { return es[i].Off < es[j].Off })
	// drop overlapping edits (they would only loosen the bound)
	var out []Edit
	pos := 0
	for _, e := range es {
		if e.Off < pos {
			continue
		}
		out = append(out, e)
		pos = e.Off + e.Del
	}
	return out
}

var pathsPool = []string{"a", "b", "c", "d", "x/a", "x/b", "y/z/a", "y/b"}

var prop = h.Prop[Spec]{
	ID: "C08", Name: "freshbytes",
	Gen: func(t *rapid.T) Spec {
		s := Spec{Family: rapid.SampledFrom([]string{"identical", "renames", "edits", "edits", "edits"}).Draw(t, "family")}
		if rapid.IntRange(0, 4).Draw(t, "gzip") == 0 {
			s.Comp = h.Comp{Algo: 2, Q: 1}
		}
		n := rapid.IntRange(1, 4).Draw(t, "nfiles")
		if s.Family == "edits" {
			n = rapid.IntRange(1, 2).Draw(t, "nfiles-edits")
		}
		used := map[string]bool{}
		for i := 0; i < n; i++ {
			p := pathsPool[i]
			used[p] = true
			s.Files = append(s.Files, File{Path: p, Size: genSize(t)})
		}
		for i := range s.Files {
			f := &s.Files[i]
			switch s.Family {
			case "identical":
				f.To = []string{f.Path}
			case "renames":
				nto := rapid.IntRange(0, 3).Draw(t, "ncopies")
				if rapid.Bool().Draw(t, "keep") {
					f.To = append(f.To, f.Path)
				}
				for j := 0; j < nto; j++ {
					p := fmt.Sprintf("%s.%d", pathsPool[rapid.IntRange(0, len(pathsPool)-1).Draw(t, "to")], i*4+j)
					f.To = append(f.To, p)
				}
			case "edits":
				f.To = []string{f.Path}
				if i == 0 && rapid.IntRange(0, 29).Draw(t, "long-shifted-file") == 0 {
					// one small length-changing edit near the start of a file of 18-30 MiB: every internal buffer
					// wrap (about every 4.1 MiB) falls into shifted, reusable data
					f.Size = rapid.IntRange(18, 30).Draw(t, "long-mib")<<20 + rapid.IntRange(0, h.BS).Draw(t, "long-tail")
					e := Edit{Off: rapid.IntRange(0, 3*h.BS).Draw(t, "long-off")}
					if rapid.Bool().Draw(t, "long-insert") {
						e.Ins = rapid.IntRange(1, 100).Draw(t, "long-ins")
					} else {
						e.Del = rapid.IntRange(1, 100).Draw(t, "long-del")
					}
					f.Edits = []Edit{e}
				} else if i == 0 {
					f.Edits = genEdits(t, f.Size)
					if rapid.IntRange(0, 3).Draw(t, "edited-and-renamed") == 0 {
						f.To = []string{"moved/" + f.Path}
					}
					if rapid.IntRange(0, 3).Draw(t, "also-kept") == 0 {
						f.To = append(f.To, "copy/"+f.Path)
					}
				}
			}
		}
		if s.Family == "renames" && len(s.Files) >= 2 && rapid.IntRange(0, 3).Draw(t, "swap-two-files") == 0 {
			// two files trade places: each path keeps existing, with the other file's content
			a, b := &s.Files[0], &s.Files[1]
			a.To, b.To = []string{b.Path}, []string{a.Path}
			if rapid.IntRange(0, 3).Draw(t, "swap-large-equal-sizes") == 0 {
				// ... and they have the same size, beyond the largest data operation (4 MiB)
				a.Size = 4<<20 + rapid.IntRange(1, 2<<20).Draw(t, "swap-size")
				b.Size = a.Size
			}
		}
		s.SigFile = rapid.IntRange(0, 3).Draw(t, "old-signature-from-stream") == 0
		s.Again = rapid.IntRange(0, 4).Draw(t, "same-context-twice") == 0
		if s.Family != "edits" {
			// rolling-hash collisions inside the block library: constant blocks (and an empty file), twins
			for i := range s.Files {
				f := &s.Files[i]
				switch rapid.IntRange(0, 9).Draw(t, "content-kind") {
				case 0:
					f.Kind = "zero"
				case 1:
					f.Kind = "const"
				case 2:
					f.Kind = "mixed"
				case 3, 4:
					f.Twin = true
					f.TwinBlock = rapid.IntRange(0, 80).Draw(t, "twin-block")
				}
			}
		}
		return s
	},
	Check: check,
}

func TestProp(t *testing.T) { h.Run(t, prop) }

func TestReplay(t *testing.T) {
	h.ReplayMain(t, map[string]h.Replayer{"freshbytes": h.ReplayerOf(prop)})
}
