// C02 In-place apply equals fresh apply and leaves the old build intact until commit.
package c02

import (
	"encoding/json"
	"fmt"
	"os"
	"path/filepath"
	"strings"
	"testing"

	"verif/harness/h"

	"pgregory.net/rapid"
)

type Spec struct {
	Pair     h.Pair       `json:"pair"`
	Comp     h.Comp       `json:"comp"`
	Optimize bool         `json:"optimize,omitempty"`
	Opt      *h.OptParams `json:"opt,omitempty"`
	Commits  int          `json:"commits"` // how many times the case is committed from pristine copies (map-order sampling)
	// FirstPass: before the full application, the same patch is applied with a whitelist (the new files whose
	// index has the bit set, cyclic) onto the same bowl object; the commit must still give exactly the new build
	FirstPass []bool `json:"first_pass,omitempty"`
	// ReverseDirs: both containers list their directories children first (zip-walked and hand-built containers
	// have no parents-first order)
	ReverseDirs bool `json:"reverse_dirs,omitempty"`
}

func check(s Spec) h.Result {
	d := h.TempDir("c02")
	defer os.RemoveAll(d)
	od, nd := filepath.Join(d, "old"), filepath.Join(d, "new")
	if err := s.Pair.Old.Write(od); err != nil {
		return h.Result{Skip: "cannot write old tree: " + err.Error()}
	}
	if err := s.Pair.New.Write(nd); err != nil {
		return h.Result{Skip: "cannot write new tree: " + err.Error()}
	}
	cl := s.Pair.Classes()
	if s.ReverseDirs {
		cl = append(cl, "containers:directories-listed-children-first")
	}
	var dopts *h.DiffOpts
	if s.ReverseDirs {
		dopts = &h.DiffOpts{ReverseDirs: true}
	}
	df, err := h.Diff(od, nd, s.Comp, dopts)
	if err != nil {
		return h.Failf("diff failed: %v", err)
	}
	patch := df.Patch
	if s.Optimize && s.Opt != nil {
		patch, err = h.Optimize(df.Patch, od, nd, *s.Opt)
		if err != nil {
			return h.Failf("optimize failed: %v", err)
		}
		cl = append(cl, "patch:optimized")
	}
	dp, err := h.DecodePatch(patch)
	if err != nil {
		return h.Failf("cannot decode patch: %v", err)
	}
	// independent classification of what the commit phase will have to do
	transposedDiff, overlays, ghosts, bs := 0, 0, 0, 0
	oldPaths := map[string]bool{}
	for _, f := range dp.Old.Files {
		oldPaths[f.Path] = true
	}
	newPaths := map[string]bool{}
	for _, e := range s.Pair.New {
		newPaths[e.Path] = true
	}
	for _, e := range s.Pair.Old {
		if !newPaths[e.Path] {
			ghosts++
		}
	}
	for _, sr := range dp.Series {
		nf := dp.New.Files[sr.FileIndex]
		if sr.Bsdiff {
			bs++
		}
		if ti, ok := dp.IsWholeFile(sr); ok {
			if dp.Old.Files[ti].Path != nf.Path {
				transposedDiff++
			}
			continue
		}
		if oldPaths[nf.Path] {
			overlays++
		}
	}
	if transposedDiff > 0 {
		cl = append(cl, "commit:transposition-to-other-path")
	}
	if overlays > 0 {
		cl = append(cl, "commit:overlay")
	}
	if ghosts > 0 {
		cl = append(cl, "commit:ghost")
	}
	if bs > 0 {
		cl = append(cl, "series:bsdiff")
	}
	n := s.Commits
	if n < 1 {
		n = 1
	}
	for i := 0; i < n; i++ {
		work := filepath.Join(d, fmt.Sprintf("work%d", i))
		stage := filepath.Join(d, fmt.Sprintf("stage%d", i))
		if err := s.Pair.Old.Write(work); err != nil {
			return h.Result{Skip: "cannot write work copy"}
		}
		before, err := h.ReadDisk(work)
		if err != nil {
			return h.Result{Skip: "cannot snapshot"}
		}
		var first map[int64]bool
		if len(s.FirstPass) > 0 {
			first = map[int64]bool{}
			for k := 0; k < 64; k++ {
				if s.FirstPass[k%len(s.FirstPass)] {
					first[int64(k)] = true
				}
			}
			if i == 0 {
				cl = append(cl, "bowl:two-passes-on-one-bowl")
			}
		}
		err = h.ApplyInPlace(patch, work, stage, &h.ApplyOpts{FirstPass: first, PreCommit: func() string {
			after, err := h.ReadDisk(work)
			if err != nil {
				return "cannot snapshot before commit: " + err.Error()
			}
			if m := h.DiffStrong(before, after); m != "" {
				return "old build modified before commit: " + m
			}
			return ""
		}})
		if err != nil {
			return h.Result{Fail: fmt.Sprintf("in-place apply (commit %d): %v", i, err), Classes: cl}
		}
		if m := h.CheckDir(work, s.Pair.New, false); m != "" {
			return h.Result{Fail: fmt.Sprintf("in-place result (commit %d) differs from the new build: %s", i, m), Classes: cl}
		}
		os.RemoveAll(work)
		os.RemoveAll(stage)
	}
	return h.Result{Classes: cl, NonTrivial: transposedDiff > 0 && (overlays > 0 || ghosts > 0), Sub: n}
}

// --- predicates for the open known findings (independent of the code under test) ---

// kindChangeAtFilePath: a path that holds a regular file in the old build holds a
// directory or a symlink in the new build, or a path below it exists in the new
// build (so the file has to make room for a directory).
func fileBecomesDirOrSymlink(s Spec) bool {
	for _, o := range s.Pair.Old {
		if o.Kind != h.KFile {
			continue
		}
		if n := s.Pair.New.Get(o.Path); n != nil && n.Kind != h.KFile {
			return true
		}
	}
	return false
}

// dirBecomesNonDir: a non-empty directory of the old build is a file or symlink in the new build.
func nonEmptyDirBecomesNonDir(s Spec) bool {
	for _, o := range s.Pair.Old {
		if o.Kind != h.KDir {
			continue
		}
		n := s.Pair.New.Get(o.Path)
		if n == nil || n.Kind == h.KDir {
			continue
		}
		for _, c := range s.Pair.Old {
			if strings.HasPrefix(c.Path, o.Path+"/") {
				return true
			}
		}
	}
	return false
}

func symlinkBecomesFileOrDir(s Spec) bool {
	for _, o := range s.Pair.Old {
		if o.Kind == h.KLink {
			if n := s.Pair.New.Get(o.Path); n != nil && n.Kind != h.KLink {
				return true
			}
		}
	}
	return false
}

func GenComp(t *rapid.T) h.Comp {
	switch rapid.IntRange(0, 5).Draw(t, "algo") {
	case 0, 1, 2, 3:
		return h.Comp{}
	case 4:
		return h.Comp{Algo: 2, Q: rapid.IntRange(1, 9).Draw(t, "q-gzip")}
	default:
		return h.Comp{Algo: 1, Q: rapid.IntRange(0, 5).Draw(t, "q-brotli")}
	}
}

var prop = h.Prop[Spec]{
	ID: "C02", Name: "inplace",
	Gen: func(t *rapid.T) Spec {
		s := Spec{Pair: h.GenPair(t, h.GenOpts{KindChange: true, PathOps: true, ConstCap: 16384}), Comp: GenComp(t), Commits: 3}
		if rapid.IntRange(0, 2).Draw(t, "optimize") == 0 {
			s.Optimize = true
			s.Opt = &h.OptParams{Partitions: rapid.IntRange(0, 2).Draw(t, "parts"), Comp: s.Comp}
		}
		s.ReverseDirs = rapid.IntRange(0, 3).Draw(t, "reverse-dirs") == 0
		if rapid.IntRange(0, 4).Draw(t, "two-passes") == 0 {
			s.FirstPass = rapid.SliceOfN(rapid.Bool(), 1, 4).Draw(t, "first-pass")
		}
		return s
	},
	Check: check,
	Predicates: map[string]func(Spec) bool{
		"c02.file_path_becomes_dir_or_symlink": fileBecomesDirOrSymlink,
		"c02.nonempty_dir_becomes_non_dir":     nonEmptyDirBecomesNonDir,
		"c02.symlink_becomes_file_or_dir":      symlinkBecomesFileOrDir,
	},
}

func TestProp(t *testing.T) { h.Run(t, prop) }

func TestReplay(t *testing.T) {
	h.ReplayMain(t, map[string]h.Replayer{"inplace": h.ReplayerOf(prop)})
}

// TestSurvey is a development aid: it runs cases without stopping at failures and
// prints a histogram of failure shapes (not part of any registered check).
func TestSurvey(t *testing.T) {
	if os.Getenv("VERIF_SURVEY") == "" {
		t.Skip()
	}
	hist := map[string]int{}
	ex := map[string]string{}
	n := 0
	rapid.Check(t, func(rt *rapid.T) {
		s := prop.Gen(rt)
		r := check(s)
		n++
		if r.Fail != "" {
			var kc []string
			for _, c := range r.Classes {
				if strings.HasPrefix(c, "kindchange") {
					kc = append(kc, c)
				}
			}
			msg := r.Fail
			if i := strings.Index(msg, "/tmp/"); i >= 0 {
				j := strings.Index(msg[i:], "/work")
				if j > 0 {
					msg = msg[:i] + msg[i+j:]
				}
			}
			k := strings.Join(kc, ",") + " | " + msg
			hist[k]++
			if _, ok := ex[k]; !ok {
				b, _ := json.Marshal(s.Pair)
				ex[k] = string(b)
			}
		}
	})
	for k, v := range hist {
		t.Logf("%4d %s\n      %s", v, k, ex[k])
	}
	t.Logf("n=%d", n)
}
