// C18 Writing through a validating pool checks every block regardless of write sizes.
package c18

import (
	"bytes"
	"context"
	"fmt"
	"io"
	"os"
	"path/filepath"
	"strings"
	"sync"
	"testing"

	"verif/harness/h"

	"github.com/itchio/lake"
	"github.com/itchio/lake/pools/fspool"
	"github.com/itchio/lake/tlc"
	"github.com/itchio/wharf/pwr"
	"github.com/itchio/wharf/pwr/bowl"
	"github.com/itchio/wharf/pwr/patcher"
	"github.com/itchio/wharf/wsync"
	"pgregory.net/rapid"
)

const B = h.BS

// FileSpec is one file of the pool: signed content and what gets written.
type FileSpec struct {
	Signed  h.Content `json:"signed"`
	Written h.Content `json:"written"`
	Slices  []int     `json:"slices"`                 // write sizes, cyclic
	Keep    bool      `json:"keep_writing,omitempty"` // error mode: the caller keeps writing the rest after a failed Write (and only then closes)
	// Collide: offsets in Written at (or after) which three neighbouring bytes are changed by +1,-2,+1:
	// the block differs from the signed one but has the same rolling (weak) hash
	Collide []int `json:"collide,omitempty"`
	// CloseFails (wound modes): the underlying pool's writer for this file accepts every byte and then fails
	// its Close (disk full on the last flush); the wounds of the file are owed all the same
	CloseFails bool `json:"close_fails,omitempty"`
}

func (f FileSpec) writtenBytes() []byte {
	b := f.Written.Bytes()
	for _, off := range f.Collide {
		if off < len(b) {
			h.CollideBytes(b, off)
		}
	}
	return b
}

type Spec struct {
	Files []FileSpec `json:"files"`
	Mode  string     `json:"mode"` // error | wounds | aggregate
}

type recPool struct {
	c      *tlc.Container
	got    map[int64]*bytes.Buffer
	closed map[int64]int
	failCl map[int64]bool
}

func (p *recPool) GetSize(i int64) int64                        { return p.c.Files[i].Size }
func (p *recPool) GetReader(i int64) (io.Reader, error)         { return nil, fmt.Errorf("no") }
func (p *recPool) GetReadSeeker(i int64) (io.ReadSeeker, error) { return nil, fmt.Errorf("no") }
func (p *recPool) Close() error                                 { return nil }

type recW struct {
	p *recPool
	i int64
}

func (w *recW) Write(b []byte) (int, error) { return w.p.got[w.i].Write(b) }
func (w *recW) Close() error {
	w.p.closed[w.i]++
	if w.p.failCl[w.i] {
		return fmt.Errorf("close of file %d: no space left on device", w.i)
	}
	return nil
}
func (p *recPool) GetWriter(i int64) (io.WriteCloser, error) {
	p.got[i] = new(bytes.Buffer)
	return &recW{p, i}, nil
}

func blk(b []byte, i int) []byte {
	lo, hi := i*B, (i+1)*B
	if lo > len(b) {
		lo = len(b)
	}
	if hi > len(b) {
		hi = len(b)
	}
	return b[lo:hi]
}

func nblocks(n int) int { return (n + B - 1) / B }

func check(s Spec) h.Result {
	c := &tlc.Container{}
	var signed, written [][]byte
	sctx := wsync.NewContext(B)
	var hs []wsync.BlockHash
	for i, f := range s.Files {
		sb := f.Signed.Bytes()
		signed = append(signed, sb)
		written = append(written, f.writtenBytes())
		c.Files = append(c.Files, &tlc.File{Path: fmt.Sprintf("f%d", i), Size: int64(len(sb)), Mode: 0o644})
		c.Size += int64(len(sb))
		err := sctx.CreateSignature(context.Background(), int64(i), bytes.NewReader(sb), func(bh wsync.BlockHash) error { hs = append(hs, bh); return nil })
		if err != nil {
			return h.Failf("CreateSignature: %v", err)
		}
	}
	si := &pwr.SignatureInfo{Container: c, Hashes: hs}
	inner := &recPool{c: c, got: map[int64]*bytes.Buffer{}, closed: map[int64]int{}, failCl: map[int64]bool{}}
	if s.Mode != "error" {
		for i, f := range s.Files {
			inner.failCl[int64(i)] = f.CloseFails
		}
	}
	vp := &pwr.ValidatingPool{Pool: inner, Container: c, Signature: si}
	var got []*pwr.Wound
	var done chan struct{}
	if s.Mode != "error" {
		vp.Wounds = make(chan *pwr.Wound)
		done = make(chan struct{})
		go func() {
			for w := range vp.Wounds {
				got = append(got, w)
			}
			close(done)
		}()
		if s.Mode == "aggregate" {
			vp.WoundsFilter = func(w chan *pwr.Wound) chan *pwr.Wound { return pwr.AggregateWounds(w, pwr.MaxWoundSize) }
		}
	}
	cl := []string{"mode:" + s.Mode}
	for i, f := range s.Files {
		if len(f.Collide) > 0 && !bytes.Equal(written[i], f.Written.Bytes()) {
			cl = append(cl, "bad-block:same-weak-hash")
			break
		}
	}
	nt := false
	type perFile struct{ from, to int }
	var spans []perFile
	for i := range s.Files {
		w, err := vp.GetWriter(int64(i))
		if err != nil {
			return h.Failf("GetWriter(%d): %v", i, err)
		}
		wr, sg := written[i], signed[i]
		// model: first bad block
		firstBad := -1
		for b := 0; b < nblocks(len(wr)); b++ {
			if b >= nblocks(len(sg)) || !bytes.Equal(blk(wr, b), blk(sg, b)) {
				firstBad = b
				break
			}
		}
		from := len(got)
		pos, k := 0, 0
		var werr error
		failedAt := -1 // cumulative end of the failing write
		straddle := false
		for pos < len(wr) && (werr == nil || s.Files[i].Keep) {
			n := 1
			if len(s.Files[i].Slices) > 0 {
				n = s.Files[i].Slices[k%len(s.Files[i].Slices)]
			}
			k++
			if n < 1 {
				n = 1
			}
			if pos+n > len(wr) {
				n = len(wr) - pos
			}
			if pos/B != (pos+n-1)/B {
				straddle = true
			}
			_, err := w.Write(wr[pos : pos+n])
			pos += n
			if err != nil && werr == nil {
				werr = err
				failedAt = pos
				if s.Files[i].Keep {
					cl = append(cl, "caller:keeps-writing-after-error")
				}
			}
		}
		cerr := w.Close()
		if s.Mode != "error" {
			// wounds of this file have all been relayed when Close returns
			spans = append(spans, perFile{from, -1})
		}
		name := fmt.Sprintf("file %d (signed %d bytes, written %d bytes)", i, len(sg), len(wr))
		if s.Mode == "error" {
			innerGot := inner.got[int64(i)].Bytes()
			if firstBad < 0 {
				if werr != nil || cerr != nil {
					return h.Result{Fail: fmt.Sprintf("%s: written data equals the signed content (or a block-aligned prefix) but was rejected: write=%v close=%v", name, werr, cerr), Classes: cl}
				}
				if !bytes.Equal(innerGot, wr) {
					return h.Result{Fail: fmt.Sprintf("%s: accepted data did not pass through unchanged (inner pool got %d bytes)", name, len(innerGot)), Classes: cl}
				}
				cl = append(cl, "written:accepted")
			} else {
				if werr == nil && cerr == nil {
					return h.Result{Fail: fmt.Sprintf("%s: block %d differs from the signed block (or lies beyond the signed block count) but neither Write nor Close failed", name, firstBad), Classes: cl}
				}
				if !bytes.Equal(innerGot, wr[:firstBad*B]) {
					return h.Result{Fail: fmt.Sprintf("%s: first bad block is %d, the inner pool should have received exactly %d bytes but got %d", name, firstBad, firstBad*B, len(innerGot)), Classes: cl}
				}
				complete := (firstBad + 1) * B
				if complete <= len(wr) {
					// the bad block is a full one: the write that completes it must fail
					if werr == nil {
						return h.Result{Fail: fmt.Sprintf("%s: full block %d is bad but no Write failed (only Close did)", name, firstBad), Classes: cl}
					}
					if failedAt < complete {
						return h.Result{Fail: fmt.Sprintf("%s: a Write ending at %d failed before bad block %d was complete (%d)", name, failedAt, firstBad, complete), Classes: cl}
					}
				} else if werr != nil {
					return h.Result{Fail: fmt.Sprintf("%s: the bad block %d is the final partial one, only Close can complete it, but a Write failed: %v", name, firstBad, werr), Classes: cl}
				}
				cl = append(cl, "written:rejected")
				if firstBad > 0 {
					cl = append(cl, "bad-block:not-first")
					if straddle {
						nt = true
					}
				}
				if firstBad >= nblocks(len(sg)) {
					cl = append(cl, "bad-block:beyond-signed-count")
				}
			}
			if inner.closed[int64(i)] != 1 {
				return h.Result{Fail: fmt.Sprintf("%s: inner writer closed %d times", name, inner.closed[int64(i)]), Classes: cl}
			}
		} else {
			if inner.failCl[int64(i)] {
				cl = append(cl, "inner-pool:close-fails")
				cerr = nil // whether Close reports it is not C18's business; the wounds are
			}
			if werr != nil || cerr != nil {
				return h.Result{Fail: fmt.Sprintf("%s: wound mode must not fail writes: write=%v close=%v", name, werr, cerr), Classes: cl}
			}
		}
		if straddle {
			cl = append(cl, "write:straddles-block-boundary")
		}
	}
	if s.Mode == "error" {
		return h.Result{Classes: cl, NonTrivial: nt}
	}
	close(vp.Wounds)
	<-done
	// wound mode oracle, per file
	for i := range s.Files {
		wr, sg := written[i], signed[i]
		var ws []*pwr.Wound
		for _, w := range got {
			if w.Index == int64(i) {
				ws = append(ws, w)
			}
		}
		name := fmt.Sprintf("file %d (signed %d bytes, written %d bytes)", i, len(sg), len(wr))
		// expected tiling up to the signed length
		nb := nblocks(len(wr))
		if nblocks(len(sg)) < nb {
			nb = nblocks(len(sg))
		}
		covEnd := nb * B
		if covEnd > len(sg) {
			covEnd = len(sg)
		}
		bad := make([]bool, nb)
		anyBad, laterBad := false, false
		for b := 0; b < nb; b++ {
			bad[b] = !bytes.Equal(blk(wr, b), blk(sg, b))
			if bad[b] {
				anyBad = true
				if b > 0 {
					laterBad = true
				}
			}
		}
		pos := int64(0)
		lastStart := int64(-1)
		for j, w := range ws {
			if w.Kind != pwr.WoundKind_FILE && w.Kind != pwr.WoundKind_CLOSED_FILE {
				return h.Result{Fail: fmt.Sprintf("%s: wound #%d has kind %v", name, j, w.Kind), Classes: cl}
			}
			if w.Start < lastStart {
				return h.Result{Fail: fmt.Sprintf("%s: wounds out of offset order: #%d starts at %d after one starting at %d", name, j, w.Start, lastStart), Classes: cl}
			}
			lastStart = w.Start
			if w.Start >= int64(covEnd) {
				continue // beyond the signed length: not covered by the statement
			}
			if w.Start != pos {
				return h.Result{Fail: fmt.Sprintf("%s: wounds/markers do not tile the written range: expected one starting at %d, got [%d,%d) %v", name, pos, w.Start, w.End, w.Kind), Classes: cl}
			}
			end := w.End
			if end > int64(covEnd) {
				end = int64(covEnd)
			}
			if end <= w.Start {
				return h.Result{Fail: fmt.Sprintf("%s: empty or inverted range [%d,%d)", name, w.Start, w.End), Classes: cl}
			}
			// every block inside [start,end) must have the wound's verdict
			for b := int(w.Start) / B; b*B < int(end); b++ {
				if b >= nb {
					break
				}
				isWound := w.Kind == pwr.WoundKind_FILE
				if isWound != bad[b] {
					return h.Result{Fail: fmt.Sprintf("%s: block %d differs=%v but is covered by a %v [%d,%d)", name, b, bad[b], w.Kind, w.Start, w.End), Classes: cl}
				}
			}
			if end != int64(covEnd) && end%int64(B) != 0 {
				return h.Result{Fail: fmt.Sprintf("%s: range [%d,%d) does not end on the signed block grid", name, w.Start, w.End), Classes: cl}
			}
			pos = end
		}
		if pos != int64(covEnd) {
			return h.Result{Fail: fmt.Sprintf("%s: wounds/markers cover [0,%d) but the written range up to the signed length is [0,%d)", name, pos, covEnd), Classes: cl}
		}
		if anyBad {
			cl = append(cl, "wounds:some-block-differs")
		}
		if laterBad {
			nt = true
		}
	}
	return h.Result{Classes: cl, NonTrivial: nt}
}

func genSize(t *rapid.T) int {
	return rapid.OneOf(rapid.IntRange(0, 10), rapid.SampledFrom([]int{B - 1, B, B + 1, 2*B - 1, 2 * B, 2*B + 1, 3 * B, 5*B + 3}), rapid.IntRange(0, 4*B)).Draw(t, "size")
}

func genFile(t *rapid.T, i int) FileSpec {
	size := genSize(t)
	f := FileSpec{Signed: h.Content{}}
	if size > 0 {
		f.Signed = h.Content{{Src: 1 + i, Off: 0, Len: size}}
	}
	w := h.Concat(f.Signed)
	switch rapid.IntRange(0, 8).Draw(t, "mutation") {
	case 7: // a whole block missing: every later block equals the *next* signed block
		if nb := nblocks(size); nb >= 2 {
			k := rapid.IntRange(0, nb-2).Draw(t, "dropped-block")
			w = h.Concat(w.Slice(0, k*B), w.Slice((k+1)*B, size))
		}
	case 8: // a block written twice: every later block equals the *previous* signed block
		if nb := nblocks(size); nb >= 1 && size >= B {
			k := rapid.IntRange(0, size/B-1).Draw(t, "doubled-block")
			w = h.Concat(w.Slice(0, (k+1)*B), w.Slice(k*B, size))
		}
	case 0, 1: // equal
	case 2: // flip in a set of blocks
		n := rapid.IntRange(1, 3).Draw(t, "nflips")
		for j := 0; j < n && size > 0; j++ {
			nb := nblocks(size)
			b := rapid.IntRange(0, nb-1).Draw(t, "flip-block")
			off := b*B + rapid.SampledFrom([]int{0, 1, B - 1, 999}).Draw(t, "flip-in-block")
			if off >= size {
				off = size - 1
			}
			w = w.XorRange(off, off+1, 0x40)
		}
	case 3: // truncated anywhere
		w = w.Slice(0, rapid.IntRange(0, size).Draw(t, "truncate"))
		if rapid.Bool().Draw(t, "collide-instead") {
			// not truncated: blocks that differ from the signed ones but have the same rolling hash
			w = h.Concat(f.Signed)
			n := rapid.IntRange(1, 2).Draw(t, "ncollide")
			for j := 0; j < n && size > 3; j++ {
				b := rapid.IntRange(0, nblocks(size)-1).Draw(t, "collide-block")
				off := b*B + rapid.SampledFrom([]int{0, 1, 999, B - 3}).Draw(t, "collide-in-block")
				if off > size-3 {
					off = size - 3
				}
				f.Collide = append(f.Collide, off)
			}
		}
	case 4: // block-aligned prefix
		w = w.Slice(0, rapid.IntRange(0, size/B).Draw(t, "prefix-blocks")*B)
	case 5: // extended
		w = h.Concat(w, h.Content{{Src: 9, Off: 5, Len: rapid.OneOf(rapid.IntRange(1, 20), rapid.IntRange(1, 2*B+10)).Draw(t, "extend")}})
	case 6: // unrelated content of the same length
		if size > 0 {
			w = h.Content{{Src: 7, Off: 0, Len: size}}
		}
	}
	if w == nil {
		w = h.Content{}
	}
	f.Written = w
	f.Slices = rapid.SliceOfN(rapid.OneOf(rapid.IntRange(1, 50), rapid.IntRange(1, 3*B), rapid.SampledFrom([]int{B - 1, B, B + 1, 2 * B})), 1, 6).Draw(t, "slices")
	if rapid.IntRange(0, 9).Draw(t, "bytewise") == 0 && size < 3000 {
		f.Slices = []int{1}
	}
	f.Keep = rapid.IntRange(0, 2).Draw(t, "keep-writing") == 0
	f.CloseFails = rapid.IntRange(0, 4).Draw(t, "inner-close-fails") == 0
	return f
}

var prop = h.Prop[Spec]{
	ID: "C18", Name: "validatingpool",
	Gen: func(t *rapid.T) Spec {
		s := Spec{Mode: rapid.SampledFrom([]string{"error", "error", "wounds", "aggregate"}).Draw(t, "mode")}
		n := rapid.IntRange(1, 3).Draw(t, "nfiles")
		for i := 0; i < n; i++ {
			s.Files = append(s.Files, genFile(t, i))
		}
		return s
	},
	Check: check,
}

func TestProp(t *testing.T) { h.Run(t, prop) }

// ---------------------------------------------------------------------------
// Several files of ONE validating pool written at the same time: the writers are opened one after the other
// (GetWriter is not meant to be called concurrently) and then each file is written by its own goroutine.
// Every writer must judge its own file exactly as it would alone. Also run under the race detector.

type ParSpec struct {
	Blocks []int `json:"blocks"`           // per file: size in blocks (plus Tail bytes)
	Tail   int   `json:"tail"`             // bytes after the last full block (0: block multiple)
	Bad    []int `json:"bad,omitempty"`    // per file (cyclic): -1 written == signed, k >= 0: block k (mod blocks) has a flipped byte
	Slice  int   `json:"slice"`            // write size
	Wounds bool  `json:"wounds,omitempty"` // wound mode instead of error mode
}

type lockedPool struct {
	*recPool
	mu sync.Mutex
}

type lockedW struct {
	p *lockedPool
	i int64
}

func (w *lockedW) Write(b []byte) (int, error) {
	w.p.mu.Lock()
	defer w.p.mu.Unlock()
	return w.p.got[w.i].Write(b)
}
func (w *lockedW) Close() error { return nil }
func (p *lockedPool) GetWriter(i int64) (io.WriteCloser, error) {
	p.mu.Lock()
	defer p.mu.Unlock()
	p.got[i] = new(bytes.Buffer)
	return &lockedW{p, i}, nil
}

func checkParallel(s ParSpec) h.Result {
	c := &tlc.Container{}
	sctx := wsync.NewContext(B)
	var hs []wsync.BlockHash
	var signed, written [][]byte
	for i, nb := range s.Blocks {
		sb := h.Content{{Src: 1 + i%6, Off: i * 977, Len: nb*B + s.Tail}}.Bytes()
		wb := append([]byte{}, sb...)
		if len(s.Bad) > 0 {
			if k := s.Bad[i%len(s.Bad)]; k >= 0 && len(wb) > 0 {
				wb[(k%(nb+1))*B%len(wb)] ^= 0x20
			}
		}
		signed, written = append(signed, sb), append(written, wb)
		c.Files = append(c.Files, &tlc.File{Path: fmt.Sprintf("f%d", i), Size: int64(len(sb)), Mode: 0o644})
		c.Size += int64(len(sb))
		if err := sctx.CreateSignature(context.Background(), int64(i), bytes.NewReader(sb), func(bh wsync.BlockHash) error { hs = append(hs, bh); return nil }); err != nil {
			return h.Failf("CreateSignature: %v", err)
		}
	}
	inner := &lockedPool{recPool: &recPool{c: c, got: map[int64]*bytes.Buffer{}, closed: map[int64]int{}}}
	vp := &pwr.ValidatingPool{Pool: inner, Container: c, Signature: &pwr.SignatureInfo{Container: c, Hashes: hs}}
	var wmu sync.Mutex
	wounded := map[int64][]*pwr.Wound{}
	var relayDone chan struct{}
	if s.Wounds {
		vp.Wounds = make(chan *pwr.Wound)
		relayDone = make(chan struct{})
		go func() {
			for w := range vp.Wounds {
				if w.Kind == pwr.WoundKind_FILE {
					wmu.Lock()
					wounded[w.Index] = append(wounded[w.Index], w)
					wmu.Unlock()
				}
			}
			close(relayDone)
		}()
	}
	ws := make([]io.WriteCloser, len(s.Blocks))
	for i := range s.Blocks {
		w, err := vp.GetWriter(int64(i))
		if err != nil {
			return h.Failf("GetWriter(%d): %v", i, err)
		}
		ws[i] = w
	}
	errs := make([]error, len(ws))
	var wg sync.WaitGroup
	for i := range ws {
		wg.Add(1)
		go func(i int) {
			defer wg.Done()
			wr := written[i]
			n := s.Slice
			if n < 1 {
				n = 1
			}
			for pos := 0; pos < len(wr) && errs[i] == nil; pos += n {
				end := pos + n
				if end > len(wr) {
					end = len(wr)
				}
				_, errs[i] = ws[i].Write(wr[pos:end])
			}
			if cerr := ws[i].Close(); errs[i] == nil {
				errs[i] = cerr
			}
		}(i)
	}
	wg.Wait()
	if s.Wounds {
		close(vp.Wounds)
		<-relayDone
	}
	cl := []string{"parallel:writers-of-one-pool"}
	for i := range ws {
		same := bytes.Equal(signed[i], written[i])
		name := fmt.Sprintf("file %d of %d written at the same time through one validating pool (%d bytes)", i, len(ws), len(written[i]))
		if s.Wounds {
			if same && len(wounded[int64(i)]) > 0 {
				w := wounded[int64(i)][0]
				return h.Result{Fail: fmt.Sprintf("%s equals its signed content, but [%d,%d) was reported as a wound", name, w.Start, w.End), Classes: cl}
			}
			if !same && len(wounded[int64(i)]) == 0 {
				return h.Result{Fail: fmt.Sprintf("%s differs from its signed content in one block, but no wound was reported for it", name), Classes: cl}
			}
			continue
		}
		if same && errs[i] != nil {
			return h.Result{Fail: fmt.Sprintf("%s equals its signed content, but was rejected: %v", name, errs[i]), Classes: cl}
		}
		if !same && errs[i] == nil {
			return h.Result{Fail: fmt.Sprintf("%s differs from its signed content in one block, but neither Write nor Close failed", name), Classes: cl}
		}
		if same && !bytes.Equal(inner.got[int64(i)].Bytes(), written[i]) {
			return h.Result{Fail: fmt.Sprintf("%s was accepted but did not pass through unchanged", name), Classes: cl}
		}
	}
	if s.Wounds {
		cl = append(cl, "mode:wounds")
	} else {
		cl = append(cl, "mode:error")
	}
	return h.Result{Classes: cl, NonTrivial: len(ws) >= 2}
}

var propParallel = h.Prop[ParSpec]{
	ID: "C18", Name: "parallel",
	Gen: func(t *rapid.T) ParSpec {
		s := ParSpec{Tail: rapid.SampledFrom([]int{0, 0, 1, 777}).Draw(t, "tail")}
		n := rapid.IntRange(2, 6).Draw(t, "nfiles")
		for i := 0; i < n; i++ {
			s.Blocks = append(s.Blocks, rapid.IntRange(1, 24).Draw(t, "blocks"))
		}
		s.Bad = rapid.SliceOfN(rapid.SampledFrom([]int{-1, -1, -1, 0, 3, 100}), 1, 4).Draw(t, "bad")
		s.Slice = rapid.SampledFrom([]int{4096, 32768, B, B + 1, 3 * B}).Draw(t, "slice")
		s.Wounds = rapid.IntRange(0, 2).Draw(t, "wounds") == 0
		return s
	},
	Check: checkParallel,
}

func TestParallel(t *testing.T) { h.Run(t, propParallel) }

// ---------------------------------------------------------------------------
// the same pool driven the way its real caller drives it: a patch applied
// through a pool bowl whose output pool is a ValidatingPool over the new
// build's signature. The write slicing is whatever the patcher produces
// (32KiB copy chunks, data ops of any size, bsdiff adds).

type PatchSpec struct {
	Pair     h.Pair  `json:"pair"`
	Optimize bool    `json:"optimize,omitempty"`
	Damage   []h.Dmg `json:"damage,omitempty"` // applied to the old build before patching (no safekeeper)
	// Jitter: the old build is read through readers that slice their reads and (first byte odd) return their
	// last bytes together with io.EOF: a Transpose copies straight from such a reader into the pool's writer
	Jitter []byte `json:"jitter,omitempty"`
}

func checkViaPatcher(s PatchSpec) h.Result {
	d := h.TempDir("c18p")
	defer os.RemoveAll(d)
	od, nd, dd, out := filepath.Join(d, "old"), filepath.Join(d, "new"), filepath.Join(d, "dmg"), filepath.Join(d, "out")
	for _, x := range []struct {
		t   h.Tree
		dir string
	}{{s.Pair.Old, od}, {s.Pair.New, nd}, {s.Pair.Old, dd}} {
		if err := x.t.Write(x.dir); err != nil {
			return h.Result{Skip: "cannot write tree"}
		}
	}
	df, err := h.Diff(od, nd, h.Comp{}, nil)
	if err != nil {
		return h.Failf("diff failed: %v", err)
	}
	patch := df.Patch
	if s.Optimize {
		if patch, err = h.Optimize(df.Patch, od, nd, h.OptParams{Partitions: 1}); err != nil {
			return h.Failf("optimize failed: %v", err)
		}
	}
	si, err := h.ReadSig(df.Sig)
	if err != nil {
		return h.Failf("cannot read the signature of the new build: %v", err)
	}
	damaged := false
	for _, dm := range s.Damage {
		if e := s.Pair.Old.Get(dm.Path); e == nil || e.Kind != h.KFile {
			continue
		}
		if err := h.ApplyDmg(dd, dm); err != nil {
			return h.Result{Skip: "cannot damage"}
		}
		damaged = true
	}
	cl := []string{"driver:patcher+poolbowl"}
	if damaged {
		cl = append(cl, "old:damaged")
	}
	p, err := patcher.New(h.Source(patch), h.Quiet())
	if err != nil {
		return h.Failf("patcher.New: %v", err)
	}
	os.MkdirAll(out, 0o755)
	var tp lake.Pool = fspool.New(p.GetTargetContainer(), dd)
	if len(s.Jitter) > 0 {
		tp = &h.JitterPool{Pool: tp, J: h.NewJitter(s.Jitter, 0)}
		cl = append(cl, "old-readers:sliced")
		if s.Jitter[0]&1 == 1 {
			cl = append(cl, "old-readers:last-bytes-with-EOF")
		}
	}
	vp := &pwr.ValidatingPool{Pool: fspool.New(si.Container, out), Container: si.Container, Signature: si}
	b, err := bowl.NewPoolBowl(bowl.PoolBowlParams{TargetContainer: p.GetTargetContainer(), SourceContainer: p.GetSourceContainer(), TargetPool: tp, OutputPool: vp})
	if err != nil {
		return h.Failf("NewPoolBowl: %v", err)
	}
	tcont := p.GetTargetContainer()
	rb := &recBowl{Bowl: b, written: map[int64][]byte{}, oldFile: func(ti int64) []byte {
		data, _ := os.ReadFile(filepath.Join(dd, filepath.FromSlash(tcont.Files[ti].Path)))
		return data
	}}
	aerr := p.Resume(nil, tp, rb)
	if aerr == nil {
		aerr = rb.Commit()
	}
	rb.Close()
	want := s.Pair.New.Expect()
	nt := false
	for _, f := range si.Container.Files {
		signed := want[f.Path].Data
		got, rerr := os.ReadFile(filepath.Join(out, filepath.FromSlash(f.Path)))
		if rerr != nil {
			if aerr == nil && len(signed) > 0 {
				return h.Result{Fail: fmt.Sprintf("application through the validating pool returned nil but %s was never written", f.Path), Classes: cl}
			}
			continue
		}
		// whatever reached the inner pool must be the signed content, or (after a
		// failure / for a shorter write) a block-aligned prefix of it
		if len(got) > len(signed) || !bytes.Equal(got, signed[:len(got)]) {
			return h.Result{Fail: fmt.Sprintf("%s: %d bytes reached the underlying pool that are not a prefix of the signed content (%d bytes, first difference at %d); apply error: %v", f.Path, len(got), len(signed), firstDiffB(got, signed), aerr), Classes: cl}
		}
		if len(got) != len(signed) && len(got)%B != 0 {
			return h.Result{Fail: fmt.Sprintf("%s: %d bytes reached the underlying pool, neither the signed length %d nor a block-aligned prefix; apply error: %v", f.Path, len(got), len(signed), aerr), Classes: cl}
		}
		if len(got) != len(signed) && aerr == nil && !damaged {
			return h.Result{Fail: fmt.Sprintf("%s: undamaged old build, nil error, but only %d of %d bytes were written", f.Path, len(got), len(signed)), Classes: cl}
		}
		if len(signed) > B {
			nt = true
		}
	}
	if !damaged && aerr != nil {
		return h.Result{Fail: fmt.Sprintf("a correct patch over an undamaged old build was rejected by the validating pool: %v", aerr), Classes: cl}
	}
	if damaged {
		// What did the bowl write? The recording bowl knows: the payloads of EntryWriter.Write, or the
		// (damaged) old file a Transpose copies. If that data has a bad block (first-bad-block model of the first stage), the write or close
		// completing it had to fail inside the validating pool, (a) the pool bowl had to return that failure
		// from the call it happened in (Transpose, EntryWriter.Write, EntryWriter.Close), and (b) the
		// application had to end with an error - otherwise the rejected block goes unnoticed.
		if len(rb.errs) > 0 && aerr == nil {
			return h.Result{Fail: fmt.Sprintf("a call into the pool bowl over the validating pool failed (%s) but the application returned nil: the rejected block goes unnoticed", rb.errs[0]), Classes: cl}
		}
		if len(rb.errs) == 0 && aerr == nil {
			for i, f := range si.Container.Files {
				sg := want[f.Path].Data
				wr, ok := rb.written[int64(i)]
				if !ok {
					continue
				}
				for k := 0; k < nblocks(len(wr)); k++ {
					if k >= nblocks(len(sg)) || !bytes.Equal(blk(wr, k), blk(sg, k)) {
						last := ""
						if (k+1)*B > len(wr) {
							last = " (the final partial block, checked when the writer is closed)"
						}
						return h.Result{Fail: fmt.Sprintf("%s: the data written for it (%d bytes) differs from the signed content in block %d%s, so the validating pool must have failed a Write or the Close - yet no call into the pool bowl (Transpose, Write, Close) returned an error", f.Path, len(wr), k, last), Classes: cl}
					}
				}
			}
		}
		for _, e := range rb.errs {
			if strings.HasPrefix(e, "Close") || strings.HasPrefix(e, "Transpose") {
				cl = append(cl, "bad-block:reported-by-Close-or-Transpose")
				break
			}
		}
	}
	if aerr != nil {
		cl = append(cl, "outcome:rejected")
	} else {
		cl = append(cl, "outcome:accepted")
	}
	return h.Result{Classes: cl, NonTrivial: nt}
}

// recBowl records the errors the pool bowl returns to its caller.
type recBowl struct {
	bowl.Bowl
	errs    []string
	written map[int64][]byte
	oldFile func(targetIndex int64) []byte
}

func (b *recBowl) Transpose(t bowl.Transposition) error {
	b.written[t.SourceIndex] = b.oldFile(t.TargetIndex)
	err := b.Bowl.Transpose(t)
	if err != nil {
		b.errs = append(b.errs, fmt.Sprintf("Transpose of file %d: %v", t.SourceIndex, err))
	}
	return err
}

func (b *recBowl) GetWriter(i int64) (bowl.EntryWriter, error) {
	w, err := b.Bowl.GetWriter(i)
	if err != nil {
		return nil, err
	}
	b.written[i] = []byte{}
	return &recEntryWriter{EntryWriter: w, b: b, i: i}, nil
}

type recEntryWriter struct {
	bowl.EntryWriter
	b *recBowl
	i int64
}

func (w *recEntryWriter) Write(p []byte) (int, error) {
	w.b.written[w.i] = append(w.b.written[w.i], p...)
	n, err := w.EntryWriter.Write(p)
	if err != nil {
		w.b.errs = append(w.b.errs, fmt.Sprintf("Write to file %d: %v", w.i, err))
	}
	return n, err
}

func (w *recEntryWriter) Close() error {
	err := w.EntryWriter.Close()
	if err != nil {
		w.b.errs = append(w.b.errs, fmt.Sprintf("Close of file %d: %v", w.i, err))
	}
	return err
}

func firstDiffB(a, b []byte) int {
	n := len(a)
	if len(b) < n {
		n = len(b)
	}
	for i := 0; i < n; i++ {
		if a[i] != b[i] {
			return i
		}
	}
	return n
}

var propPatcher = h.Prop[PatchSpec]{
	ID: "C18", Name: "viapatcher",
	Gen: func(t *rapid.T) PatchSpec {
		s := PatchSpec{Pair: h.GenPair(t, h.GenOpts{KindChange: true, ConstCap: 16384})}
		s.Optimize = rapid.IntRange(0, 2).Draw(t, "optimize") == 0
		if rapid.Bool().Draw(t, "damage") {
			s.Damage = h.GenDamages(t, s.Pair.Old, 2, false, false)
			var keep []h.Dmg
			for _, dm := range s.Damage {
				if dm.Op == "flip" || dm.Op == "collide" || dm.Op == "truncate" || dm.Op == "extend" {
					keep = append(keep, dm)
				}
			}
			s.Damage = keep
		}
		if rapid.IntRange(0, 2).Draw(t, "sliced-old-readers") == 0 {
			s.Jitter = rapid.SliceOfN(rapid.Byte(), 1, 8).Draw(t, "jitter")
		}
		return s
	},
	Check: checkViaPatcher,
}

func TestViaPatcher(t *testing.T) { h.Run(t, propPatcher) }

func TestReplay(t *testing.T) {
	h.ReplayMain(t, map[string]h.Replayer{"validatingpool": h.ReplayerOf(prop), "viapatcher": h.ReplayerOf(propPatcher), "parallel": h.ReplayerOf(propParallel), "parallelrace": h.ReplayerOf(propParallel)})
}
