// C04 A build validates against its own signature, however that was produced.
package c04

import (
	"bytes"
	"context"
	"crypto/md5"
	"fmt"
	"io"
	"os"
	"path/filepath"
	"strings"
	"sync"
	"testing"

	"verif/harness/h"

	"github.com/golang/protobuf/proto"
	"github.com/itchio/lake"
	"github.com/itchio/wharf/pwr"
	"github.com/itchio/wharf/wsync"
	"pgregory.net/rapid"
)

type Spec struct {
	New     h.Tree `json:"new"`
	OldKind string `json:"old_kind"` // empty | identical | other
	Old     h.Tree `json:"old,omitempty"`
	Comp    h.Comp `json:"comp"`
	Jitter  []byte `json:"jitter,omitempty"` // diff-time producer reads the source through short-reading, yielding readers
	// SingleFile: the new build is not a directory but one regular file (New has exactly one file entry); it is
	// walked, signed, diffed and validated through its path, as butler does with single-file builds
	SingleFile bool `json:"single_file,omitempty"`
	// UsedValidator: the ValidatorContext that validates the pristine build has validated a damaged copy of it
	// before (one byte flipped in the first non-empty file); nothing of that run may stick to the context
	UsedValidator bool `json:"used_validator,omitempty"`
	// Together: at the end the pristine build is validated by three goroutines at the same time, each with its
	// own ValidatorContext (diff-time signature, stand-alone signature, diff-time again): all three must pass
	Together bool `json:"together,omitempty"`
}

// refWeak is the weak hash written from the format description:
// a = sum x_i mod 2^16, b = sum (n-i) x_i mod 2^16, beta = a + 2^16 b.
func refWeak(b []byte) uint32 {
	var a, s uint32
	n := uint32(len(b))
	for i, x := range b {
		a += uint32(x)
		s += (n - uint32(i)) * uint32(x)
	}
	return (a & 0xffff) | ((s & 0xffff) << 16)
}

func cmpHash(what string, k int, got wsync.BlockHash, fi, bi int, blk []byte) string {
	sum := md5.Sum(blk)
	ss := int32(0)
	if len(blk) < h.BS {
		ss = int32(len(blk))
	}
	if got.FileIndex != int64(fi) || got.BlockIndex != int64(bi) {
		return fmt.Sprintf("%s hash #%d is for file %d block %d, expected file %d block %d", what, k, got.FileIndex, got.BlockIndex, fi, bi)
	}
	if got.WeakHash != refWeak(blk) {
		return fmt.Sprintf("%s hash #%d (file %d block %d, %d bytes): weak hash %08x, reference %08x", what, k, fi, bi, len(blk), got.WeakHash, refWeak(blk))
	}
	if !bytes.Equal(got.StrongHash, sum[:]) {
		return fmt.Sprintf("%s hash #%d (file %d block %d, %d bytes): strong hash differs from MD5 of the block", what, k, fi, bi, len(blk))
	}
	if got.ShortSize != ss {
		return fmt.Sprintf("%s hash #%d (file %d block %d): short size %d, expected %d", what, k, fi, bi, got.ShortSize, ss)
	}
	return ""
}

func check(s Spec) h.Result {
	d := h.TempDir("c04")
	defer os.RemoveAll(d)
	od, nd := filepath.Join(d, "old"), filepath.Join(d, "new")
	old := h.Tree{}
	switch s.OldKind {
	case "identical":
		old = s.New
	case "other":
		old = s.Old
	}
	if err := old.Write(od); err != nil {
		return h.Result{Skip: "cannot write old tree"}
	}
	if err := s.New.Write(nd); err != nil {
		return h.Result{Skip: "cannot write new tree"}
	}
	cl := []string{"old:" + s.OldKind, "comp:" + []string{"none", "brotli", "gzip"}[s.Comp.Algo]}
	if s.SingleFile && len(s.New) == 1 && s.New[0].Kind == h.KFile && !strings.Contains(s.New[0].Path, "/") {
		nd = filepath.Join(nd, s.New[0].Path)
		cl = append(cl, "build:single-file")
	}
	var dopts *h.DiffOpts
	if len(s.Jitter) > 0 {
		cl = append(cl, "producer:diff-time-with-short-reads")
		if s.Jitter[0]&1 == 1 {
			cl = append(cl, "producer:source-returns-data-with-EOF")
		}
		j := h.NewJitter(s.Jitter, 0)
		dopts = &h.DiffOpts{WrapPool: func(p lake.Pool) lake.Pool { return &h.JitterPool{Pool: p, J: j} }}
	}
	df, err := h.Diff(od, nd, s.Comp, dopts)
	if err != nil {
		return h.Failf("diff failed: %v", err)
	}
	si, err := h.ReadSig(df.Sig)
	if err != nil {
		return h.Result{Fail: fmt.Sprintf("signature written at diff time cannot be read back: %v", err), Classes: cl}
	}
	var swrap func(lake.Pool) lake.Pool
	if len(s.Jitter) > 1 && s.Jitter[1]&1 == 1 {
		// the stand-alone producer also reads through short-reading (and possibly data-with-EOF) readers
		cl = append(cl, "producer:stand-alone-with-short-reads")
		j2 := h.NewJitter(s.Jitter, 3)
		swrap = func(p lake.Pool) lake.Pool { return &h.JitterPool{Pool: p, J: j2} }
	}
	if s.UsedValidator {
		// (same draw) the pool handed to stand-alone signing has been used before: a caller sniffed the first
		// bytes of file 0 through it and did not close it
		inner := swrap
		swrap = func(p lake.Pool) lake.Pool {
			func() {
				defer func() { recover() }() // a build without files has no file 0 to sniff
				if r, err := p.GetReader(0); err == nil {
					io.CopyN(io.Discard, r, 4)
				}
			}()
			if inner != nil {
				return inner(p)
			}
			return p
		}
		cl = append(cl, "producer:stand-alone-on-a-used-pool")
	}
	c, hs, err := h.SignWith(nd, swrap)
	if err != nil {
		return h.Failf("stand-alone signing failed: %v", err)
	}
	if !proto.Equal(si.Container, c) {
		return h.Result{Fail: "container read back from the diff-time signature differs from the walked container of the new build", Classes: cl}
	}
	if len(si.Hashes) != len(hs) {
		return h.Result{Fail: fmt.Sprintf("diff-time signature has %d hashes, stand-alone signature %d", len(si.Hashes), len(hs)), Classes: cl}
	}
	// reference model: one hash per 64KiB block, shorter last block, one for an empty file
	want := s.New.Expect()
	k := 0
	nt := false
	hasEmpty, hasNonEmpty := false, false
	for fi, f := range c.Files {
		node := want[f.Path]
		if node == nil || node.Kind != h.KFile {
			return h.Failf("walked container names a file the spec does not have: %s", f.Path)
		}
		data := node.Data
		nb := (len(data) + h.BS - 1) / h.BS
		if nb == 0 {
			nb = 1
			hasEmpty = true
		} else {
			hasNonEmpty = true
		}
		if nb >= 2 && len(data)%h.BS != 0 {
			nt = true
		}
		if len(data) > 0 && len(data)%h.BS == 0 {
			cl = append(cl, "file:exact-block-multiple")
		}
		for b := 0; b < nb; b++ {
			lo, hi := b*h.BS, (b+1)*h.BS
			if hi > len(data) {
				hi = len(data)
			}
			if lo > len(data) {
				lo = len(data)
			}
			if k >= len(hs) {
				return h.Result{Fail: fmt.Sprintf("signature has only %d hashes, the reference needs more (file %s block %d)", len(hs), f.Path, b), Classes: cl}
			}
			if m := cmpHash("diff-time", k, si.Hashes[k], fi, b, data[lo:hi]); m != "" {
				return h.Result{Fail: m, Classes: cl}
			}
			if m := cmpHash("stand-alone", k, hs[k], fi, b, data[lo:hi]); m != "" {
				return h.Result{Fail: m, Classes: cl}
			}
			k++
		}
	}
	if k != len(hs) {
		return h.Result{Fail: fmt.Sprintf("signature has %d hashes, the reference model %d", len(hs), k), Classes: cl}
	}
	if hasEmpty && hasNonEmpty {
		nt = true
		cl = append(cl, "tree:empty-file-beside-non-empty")
	}
	if len(c.Symlinks) > 0 {
		cl = append(cl, "tree:symlinks")
	}
	if len(c.Files) == 0 {
		cl = append(cl, "tree:no-files")
	}
	// validation of the pristine build against the diff-time signature
	wp := filepath.Join(d, "wounds.pww")
	vctx := &pwr.ValidatorContext{WoundsPath: wp, Consumer: h.Quiet()}
	if s.UsedValidator && !s.SingleFile {
		dmg := filepath.Join(d, "damaged")
		if err := s.New.Write(dmg); err == nil {
			for _, e := range s.New {
				if e.Kind == h.KFile && e.C.Len() > 0 {
					h.ApplyDmg(dmg, h.Dmg{Path: e.Path, Op: "flip", Off: 0})
					vctx.Validate(context.Background(), dmg, si)
					os.Remove(wp)
					cl = append(cl, "validator:context-used-on-a-damaged-copy-before")
					break
				}
			}
		}
	}
	if err := vctx.Validate(context.Background(), nd, si); err != nil {
		return h.Result{Fail: fmt.Sprintf("wounds-file validation of the pristine build failed: %v", err), Classes: cl}
	}
	if vctx.WoundsConsumer.HasWounds() {
		return h.Result{Fail: "validation of the pristine build reported wounds", Classes: cl}
	}
	if _, err := os.Lstat(wp); err == nil {
		return h.Result{Fail: "validation of the pristine build wrote a wounds file", Classes: cl}
	}
	if err := pwr.AssertValid(nd, si); err != nil {
		return h.Result{Fail: fmt.Sprintf("fail-fast validation of the pristine build failed: %v", err), Classes: cl}
	}
	// and against the stand-alone signature
	if err := pwr.AssertValid(nd, &pwr.SignatureInfo{Container: c, Hashes: hs}); err != nil {
		return h.Result{Fail: fmt.Sprintf("fail-fast validation against the stand-alone signature failed: %v", err), Classes: cl}
	}
	if s.Together {
		cl = append(cl, "validation:three-at-the-same-time-in-one-process")
		errs := make([]error, 3)
		var wg sync.WaitGroup
		for k := range errs {
			wg.Add(1)
			go func(k int) {
				defer wg.Done()
				sig := si
				if k == 1 {
					sig = &pwr.SignatureInfo{Container: c, Hashes: hs}
				}
				for rep := 0; rep < 2 && errs[k] == nil; rep++ {
					errs[k] = pwr.AssertValid(nd, sig)
				}
			}(k)
		}
		wg.Wait()
		for k, err := range errs {
			if err != nil {
				return h.Result{Fail: fmt.Sprintf("three validations of the pristine build at the same time: validation %d failed: %v", k, err), Classes: cl}
			}
		}
	}
	return h.Result{Classes: cl, NonTrivial: nt}
}

func genComp(t *rapid.T) h.Comp {
	switch rapid.IntRange(0, 2).Draw(t, "algo") {
	case 0:
		return h.Comp{}
	case 1:
		return h.Comp{Algo: 2, Q: rapid.IntRange(-2, 9).Draw(t, "q-gzip")}
	default:
		return h.Comp{Algo: 1, Q: rapid.IntRange(0, 9).Draw(t, "q-brotli")}
	}
}

// genTree draws a single build with a size sweep.
func genTree(t *rapid.T) h.Tree {
	switch rapid.IntRange(0, 19).Draw(t, "tree-kind") {
	case 0: // many small files
		n := rapid.SampledFrom([]int{40, 150, 300}).Draw(t, "many")
		var tr h.Tree
		for i := 0; i < n; i++ {
			tr = append(tr, h.Entry{Path: fmt.Sprintf("s/f%04d", i), Kind: h.KFile, C: h.Content{{Src: 1 + i%6, Off: i * 13, Len: i % 50}}})
		}
		tr = append(tr, h.Entry{Path: "s", Kind: h.KDir})
		return tr
	case 1: // only empty files / dirs / symlinks
		tr := h.Tree{}
		n := rapid.IntRange(0, 5).Draw(t, "nempty")
		for i := 0; i < n; i++ {
			p := h.GenPath(t, "e")
			if !tr.CanAdd(p) {
				continue
			}
			switch rapid.IntRange(0, 2).Draw(t, "ekind") {
			case 0:
				tr = tr.Add(h.Entry{Path: p, Kind: h.KFile, C: h.Content{}})
			case 1:
				tr = tr.Add(h.Entry{Path: p, Kind: h.KDir})
			default:
				tr = tr.Add(h.Entry{Path: p, Kind: h.KLink, Dest: h.GenDest(t)})
			}
		}
		return tr
	default:
		return h.GenOldTree(t, h.GenOpts{Large: true, MaxOld: 7})
	}
}

var prop = h.Prop[Spec]{
	ID: "C04", Name: "signature",
	Gen: func(t *rapid.T) Spec {
		s := Spec{New: genTree(t), Comp: genComp(t)}
		s.OldKind = rapid.SampledFrom([]string{"empty", "identical", "other", "other"}).Draw(t, "old-kind")
		if s.OldKind == "other" {
			s.Old = h.GenOldTree(t, h.GenOpts{MaxOld: 4})
		}
		if rapid.IntRange(0, 2).Draw(t, "jitter") == 0 {
			s.Jitter = rapid.SliceOfN(rapid.Byte(), 1, 16).Draw(t, "jitter-bytes")
		}
		s.UsedValidator = rapid.IntRange(0, 3).Draw(t, "used-validator") == 0
		s.Together = rapid.IntRange(0, 2).Draw(t, "validate-together") == 0
		if rapid.IntRange(0, 7).Draw(t, "single-file-build") == 0 {
			s.SingleFile = true
			s.New = h.Tree{{Path: rapid.SampledFrom([]string{"a", "game.bin", "a..b", "A"}).Draw(t, "single-name"), Kind: h.KFile,
				C: h.GenContent(t, "single", h.GenOpts{})}}
		}
		return s
	},
	Check: check,
}

func TestProp(t *testing.T) { h.Run(t, prop) }

func TestReplay(t *testing.T) {
	h.ReplayMain(t, map[string]h.Replayer{"signature": h.ReplayerOf(prop)})
}
