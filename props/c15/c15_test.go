// C15 Diffing is deterministic and free of data races.
package c15

import (
	"bytes"
	"context"
	"fmt"
	"io"
	"os"
	"path/filepath"
	"runtime"
	"sync"
	"testing"
	"time"

	"verif/harness/h"

	"github.com/golang/protobuf/proto"
	"github.com/itchio/lake"
	"github.com/itchio/lake/pools/fspool"
	"github.com/itchio/lake/tlc"
	"github.com/itchio/wharf/pwr"
	"github.com/itchio/wharf/wsync"
	"pgregory.net/rapid"
)

type Spec struct {
	Pair   h.Pair `json:"pair"`
	Comp   h.Comp `json:"comp"`
	Jitter []byte `json:"jitter"` // one byte per decision of the jittering readers/writers
	Parts  int    `json:"parts"`
	Force  bool   `json:"force,omitempty"`
	Runs   int    `json:"runs"`
	// Abort: after the reference run, a diff of the same pair is cancelled while one of its source reads is
	// stalled; the stalled read is released while the next measured run is under way. A diff that was given
	// up must not influence the ones that follow it in the same process.
	Abort bool `json:"abort,omitempty"`
}

type jitterWriter struct {
	buf          bytes.Buffer
	j            *h.Jitter
	onFirstWrite func()
}

func (w *jitterWriter) Write(p []byte) (int, error) {
	if w.onFirstWrite != nil {
		w.onFirstWrite()
		w.onFirstWrite = nil
	}
	w.j.Pause(w.j.Next())
	return w.buf.Write(p)
}

// stallPool's readers block in their second Read until released.
type stallPool struct {
	lake.Pool
	blocked chan struct{}
	gate    chan struct{}
	once    sync.Once
}

type stallReader struct {
	r io.Reader
	p *stallPool
	n int
}

func (sr *stallReader) Read(b []byte) (int, error) {
	sr.n++
	if sr.n == 2 {
		sr.p.once.Do(func() { close(sr.p.blocked) })
		<-sr.p.gate
	}
	return sr.r.Read(b)
}

func (p *stallPool) GetReader(i int64) (io.Reader, error) {
	r, err := p.Pool.GetReader(i)
	if err != nil {
		return nil, err
	}
	return &stallReader{r: r, p: p}, nil
}

// abortedDiff starts a diff of the pair, cancels it while a source read is stalled and waits for WritePatch to
// return. It returns the function that releases the stalled read (nil if the diff never stalled or did not
// return within 5 s, in which case nothing is judged).
func abortedDiff(s Spec, sc, tc *tlc.Container, th []wsync.BlockHash, nd string) func() {
	sp := &stallPool{Pool: fspool.New(sc, nd), blocked: make(chan struct{}), gate: make(chan struct{})}
	var once sync.Once
	release := func() { once.Do(func() { close(sp.gate) }) }
	dctx := &pwr.DiffContext{Compression: s.Comp.Settings(), Consumer: h.Quiet(), SourceContainer: sc, Pool: sp, TargetContainer: tc, TargetSignature: th}
	ctx, cancel := context.WithCancel(context.Background())
	defer cancel()
	done := make(chan struct{})
	go func() {
		dctx.WritePatch(ctx, io.Discard, io.Discard)
		close(done)
	}()
	select {
	case <-sp.blocked:
	case <-done:
		release()
		return nil // no file needed a second read
	case <-time.After(5 * time.Second):
		release()
		<-done
		return nil
	}
	cancel()
	select {
	case <-done:
		return release
	case <-time.After(5 * time.Second):
		release()
		<-done
		return nil
	}
}

func check(s Spec) h.Result {
	d := h.TempDir("c15")
	defer os.RemoveAll(d)
	od, nd := filepath.Join(d, "old"), filepath.Join(d, "new")
	if err := s.Pair.Old.Write(od); err != nil {
		return h.Result{Skip: "cannot write old tree"}
	}
	if err := s.Pair.New.Write(nd); err != nil {
		return h.Result{Skip: "cannot write new tree"}
	}
	tc, th, err := h.Sign(od)
	if err != nil {
		return h.Failf("sign old: %v", err)
	}
	sc, err := h.Walk(nd)
	if err != nil {
		return h.Failf("walk new: %v", err)
	}
	defer runtime.GOMAXPROCS(runtime.GOMAXPROCS(0))
	runs := s.Runs
	if runs < 2 {
		runs = 2
	}
	procs := []int{1, 2, 3, 16}
	var p0, s0 []byte
	var release func()
	cl := []string{"comp:" + []string{"none", "brotli", "gzip"}[s.Comp.Algo]}
	big := 0
	for _, e := range s.Pair.New {
		if e.Kind == h.KFile && e.C.Len() >= 3*h.BS {
			big++
		}
	}
	for i := 0; i < runs; i++ {
		runtime.GOMAXPROCS(procs[i%len(procs)])
		j := h.NewJitter(s.Jitter, i*7)
		if i == 0 {
			j = h.NewJitter(nil, 0) // first run unperturbed
		}
		dctx := &pwr.DiffContext{
			Compression: s.Comp.Settings(), Consumer: h.Quiet(),
			SourceContainer: sc, Pool: &h.JitterPool{Pool: fspool.New(sc, nd), J: j},
			TargetContainer: tc, TargetSignature: th,
		}
		pw, sw := &jitterWriter{j: j}, &jitterWriter{j: j}
		if i == 1 && release != nil {
			// let the given-up diff's stalled read complete while this run is writing
			pw.onFirstWrite = release
		}
		if err := dctx.WritePatch(context.Background(), pw, sw); err != nil {
			return h.Result{Fail: fmt.Sprintf("WritePatch run %d (GOMAXPROCS %d): %v", i, procs[i%len(procs)], err), Classes: cl}
		}
		if i == 1 && release != nil {
			release()
		}
		if i == 0 {
			p0, s0 = pw.buf.Bytes(), sw.buf.Bytes()
			if s.Abort {
				release = abortedDiff(s, sc, tc, th, nd)
				if release != nil {
					cl = append(cl, "history:a-cancelled-diff-before")
				}
			}
			continue
		}
		if !bytes.Equal(p0, pw.buf.Bytes()) {
			return h.Result{Fail: fmt.Sprintf("patch bytes of run %d (GOMAXPROCS %d, jittered reads) differ from run 0: %d vs %d bytes, first difference at %d", i, procs[i%len(procs)], pw.buf.Len(), len(p0), firstDiff(p0, pw.buf.Bytes())), Classes: cl}
		}
		if !bytes.Equal(s0, sw.buf.Bytes()) {
			return h.Result{Fail: fmt.Sprintf("signature bytes of run %d (GOMAXPROCS %d, jittered reads) differ from run 0: %d vs %d bytes, first difference at %d", i, procs[i%len(procs)], sw.buf.Len(), len(s0), firstDiff(s0, sw.buf.Bytes())), Classes: cl}
		}
	}
	// two diffs running at the same time in this process (this pair and the reversed pair, each with its own
	// DiffContext, pools and writers) must not influence each other: each must still write its solo bytes
	{
		runtime.GOMAXPROCS(procs[len(procs)-1])
		sc2, th2, err := h.Sign(nd)
		if err != nil {
			return h.Failf("sign new: %v", err)
		}
		// settings == nil: a settings object of its own; otherwise the caller's (one "default compression" object
		// shared by every diff of the process)
		solo := func(rev bool, j *h.Jitter, settings ...*pwr.CompressionSettings) ([]byte, []byte, error) {
			var dctx *pwr.DiffContext
			own := s.Comp.Settings()
			if len(settings) > 0 && settings[0] != nil {
				own = settings[0]
			}
			if !rev {
				dctx = &pwr.DiffContext{Compression: own, Consumer: h.Quiet(), SourceContainer: sc, Pool: &h.JitterPool{Pool: fspool.New(sc, nd), J: j}, TargetContainer: tc, TargetSignature: th}
			} else {
				dctx = &pwr.DiffContext{Compression: own, Consumer: h.Quiet(), SourceContainer: tc, Pool: &h.JitterPool{Pool: fspool.New(tc, od), J: j}, TargetContainer: sc2, TargetSignature: th2}
			}
			pw, sw := &jitterWriter{j: j}, &jitterWriter{j: j}
			err := dctx.WritePatch(context.Background(), pw, sw)
			return pw.buf.Bytes(), sw.buf.Bytes(), err
		}
		rp0, rs0, err := solo(true, h.NewJitter(nil, 0))
		if err != nil {
			return h.Result{Fail: fmt.Sprintf("WritePatch of the reversed pair: %v", err), Classes: cl}
		}
		type out struct {
			p, s []byte
			err  error
		}
		shared := s.Comp.Settings()
		for round := 0; round < 2; round++ {
			ch := make([]chan out, 2)
			for k := 0; k < 2; k++ {
				ch[k] = make(chan out, 1)
				go func(k int) {
					var st *pwr.CompressionSettings
					if round == 1 {
						st = shared // second round: both diffs are given the same settings object
					}
					p, sg, err := solo(k == 1, h.NewJitter(s.Jitter, round*13+k*5), st)
					ch[k] <- out{p, sg, err}
				}(k)
			}
			a, b := <-ch[0], <-ch[1]
			if !proto.Equal(shared, s.Comp.Settings()) {
				return h.Result{Fail: fmt.Sprintf("the compression settings object two concurrent diffs were given has changed: %v, was %v", shared, s.Comp.Settings()), Classes: cl}
			}
			if a.err != nil || b.err != nil {
				return h.Result{Fail: fmt.Sprintf("concurrent WritePatch calls failed: %v / %v", a.err, b.err), Classes: cl}
			}
			if !bytes.Equal(a.p, p0) || !bytes.Equal(a.s, s0) {
				return h.Result{Fail: fmt.Sprintf("a diff running while another diff runs in the same process wrote different bytes than alone (patch equal=%v, signature equal=%v)", bytes.Equal(a.p, p0), bytes.Equal(a.s, s0)), Classes: cl}
			}
			if !bytes.Equal(b.p, rp0) || !bytes.Equal(b.s, rs0) {
				return h.Result{Fail: fmt.Sprintf("the reversed diff running while another diff runs in the same process wrote different bytes than alone (patch equal=%v, signature equal=%v)", bytes.Equal(b.p, rp0), bytes.Equal(b.s, rs0)), Classes: cl}
			}
		}
		cl = append(cl, "concurrent:two-diffs-in-one-process")
	}

	// the optimizer, twice (thrice) with identical parameters
	op := h.OptParams{Partitions: s.Parts, Comp: s.Comp, ForceMapAll: s.Force}
	var o0 []byte
	for i := 0; i < 3; i++ {
		runtime.GOMAXPROCS(procs[(i+1)%len(procs)])
		o, err := h.Optimize(p0, od, nd, op)
		if err != nil {
			return h.Result{Fail: fmt.Sprintf("optimize run %d: %v", i, err), Classes: cl}
		}
		if i == 0 {
			o0 = o
		} else if !bytes.Equal(o0, o) {
			return h.Result{Fail: fmt.Sprintf("optimizer output of run %d differs from run 0 with identical parameters: %d vs %d bytes, first difference at %d", i, len(o), len(o0), firstDiff(o0, o)), Classes: cl}
		}
	}
	if dp, err := h.DecodePatch(o0); err == nil {
		for _, sr := range dp.Series {
			if sr.Bsdiff {
				cl = append(cl, "optimized:bsdiff-series")
				break
			}
		}
	}
	if len(s.Jitter) > 0 {
		cl = append(cl, "jitter:on")
	}
	return h.Result{Classes: cl, NonTrivial: big >= 2, Sub: runs + 3}
}

func firstDiff(a, b []byte) int {
	n := len(a)
	if len(b) < n {
		n = len(b)
	}
	for i := 0; i < n; i++ {
		if a[i] != b[i] {
			return i
		}
	}
	return n
}

// tiePair adds the shape that exposes order-dependent choices: a new file made
// of two equally large old files (equally good bsdiff targets).
func tiePair(t *rapid.T, p h.Pair) h.Pair {
	n := rapid.SampledFrom([]int{1, 3, 4}).Draw(t, "tie-blocks") * h.BS
	a := h.Content{{Src: 21, Len: n}}
	b := h.Content{{Src: 22, Len: n}}
	for _, x := range []struct {
		p string
		c h.Content
	}{{"ta", a}, {"tb", b}} {
		if p.Old.CanAdd(x.p) {
			p.Old = p.Old.Add(h.Entry{Path: x.p, Kind: h.KFile, C: x.c})
		}
		if rapid.Bool().Draw(t, "tie-keep") && p.New.CanAdd(x.p) {
			p.New = p.New.Add(h.Entry{Path: x.p, Kind: h.KFile, C: x.c})
		}
	}
	c := h.Concat(a, b)
	if rapid.Bool().Draw(t, "tie-edit") {
		c = c.XorRange(100, 101, 1)
	}
	if p.New.CanAdd("tc") {
		p.New = p.New.Add(h.Entry{Path: "tc", Kind: h.KFile, C: c})
	}
	return p
}

var prop = h.Prop[Spec]{
	ID: "C15", Name: "determinism",
	Gen: func(t *rapid.T) Spec {
		p := h.GenPair(t, h.GenOpts{KindChange: true, MaxOld: 5, ConstCap: 16384})
		if rapid.IntRange(0, 1).Draw(t, "tie") == 0 {
			p = tiePair(t, p)
		}
		s := Spec{Pair: p, Runs: 4}
		switch rapid.IntRange(0, 3).Draw(t, "algo") {
		case 2:
			s.Comp = h.Comp{Algo: 2, Q: rapid.IntRange(1, 6).Draw(t, "q-gzip")}
		case 3:
			s.Comp = h.Comp{Algo: 1, Q: rapid.IntRange(0, 5).Draw(t, "q-brotli")}
		}
		s.Jitter = rapid.SliceOfN(rapid.Byte(), 1, 24).Draw(t, "jitter")
		s.Parts = rapid.IntRange(0, 4).Draw(t, "partitions")
		s.Force = rapid.IntRange(0, 3).Draw(t, "force") == 0
		s.Abort = rapid.IntRange(0, 2).Draw(t, "cancelled-diff-first") == 0
		return s
	},
	Check: check,
}

func TestProp(t *testing.T) { h.Run(t, prop) }

func TestReplay(t *testing.T) {
	h.ReplayMain(t, map[string]h.Replayer{"determinism": h.ReplayerOf(prop), "race": h.ReplayerOf(prop)})
}
