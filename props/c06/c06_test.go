// C06 Healing from an archive restores any damaged directory to the signed build.
package c06

import (
	stdzip "archive/zip"
	"context"
	"fmt"
	"os"
	"path/filepath"
	"runtime"
	"strings"
	"sync/atomic"
	"testing"
	"time"

	"verif/harness/h"

	"github.com/itchio/headway/state"
	"github.com/itchio/lake/tlc"
	"github.com/itchio/wharf/archiver"
	"github.com/itchio/wharf/pwr"
	"pgregory.net/rapid"
)

type Spec struct {
	Tree    h.Tree  `json:"tree"`
	Damages []h.Dmg `json:"damages"`
	Procs   int     `json:"procs"`
	Jitter  []byte  `json:"jitter,omitempty"` // consumed one byte per consumer callback: 0 nothing, 1 Gosched, 2.. sleep (b*20us)
	Reps    int     `json:"reps"`
	// Deflate: the archive is an ordinary deflate-compressed zip written by the
	// standard library (what itch.io serves) instead of wharf's own stored zip;
	// its readers return their last bytes together with io.EOF.
	Deflate bool `json:"deflate,omitempty"`
	// SigFile: heal against the signature read back from a signature stream instead of the computed one
	SigFile bool `json:"sig_file,omitempty"`
	// Twin: while the directory is healed, another build (three files of 70000..200000 bytes, its directory
	// missing) is healed again and again by another ValidatorContext in the same process; both must come out right
	Twin bool `json:"twin,omitempty"`
	// Name: file name of the archive: 0 build.zip, 1 build-48213, 2 build.zip.part, 3 archive.bin (a download
	// kept under the name the server or a cache gave it; "archive,<path>" says what the file is)
	Name int `json:"name,omitempty"`
}

var twinTree = h.Tree{
	{Path: "t", Kind: h.KDir},
	{Path: "t/big", Kind: h.KFile, C: h.Content{{Src: 77, Off: 3, Len: 200000}}},
	{Path: "u", Kind: h.KFile, C: h.Content{{Src: 78, Off: 0, Len: 70000}}},
	{Path: "v", Kind: h.KFile, C: h.Content{{Src: 79, Off: 9, Len: 131072}}},
}

// healTwin heals the twin build into fresh directories until stop is closed (at least once); it returns what went
// wrong, if anything.
func healTwin(d string, stop chan struct{}) (string, int) {
	ref, zp := filepath.Join(d, "twin-ref"), filepath.Join(d, "twin.zip")
	if err := twinTree.Write(ref); err != nil {
		return "", 0
	}
	si, err := h.SignatureOf(ref, false)
	if err != nil {
		return "twin: signing failed: " + err.Error(), 0
	}
	fw, err := os.Create(zp)
	if err != nil {
		return "", 0
	}
	_, err = archiver.CompressZip(fw, ref, h.Quiet())
	fw.Close()
	if err != nil {
		return "twin: CompressZip failed: " + err.Error(), 0
	}
	idx := indexOf(si.Container)
	for n := 1; ; n++ {
		work := filepath.Join(d, fmt.Sprintf("twin-work%d", n))
		vctx := &pwr.ValidatorContext{HealPath: "archive," + zp, Consumer: h.Quiet()}
		if err := vctx.Validate(context.Background(), work, si); err != nil {
			return fmt.Sprintf("a second build healed at the same time in the same process (heal #%d of it): healing its missing directory failed: %v", n, err), n
		}
		if after := h.Observe(work, twinTree, idx); len(after) > 0 {
			a := after[0]
			return fmt.Sprintf("a second build healed at the same time in the same process (heal #%d of it): after healing, %s %s is wrong: missing=%v shorter=%v longer=%v diffs=%v", n, a.Kind, a.Path, a.Missing, a.Shorter, a.Longer, a.DiffOffsets), n
		}
		os.RemoveAll(work)
		select {
		case <-stop:
			return "", n
		default:
		}
	}
}

// writeDeflateZip writes tree tr (already on disk below dir) as a standard zip.
func writeDeflateZip(zp, dir string, tr h.Tree) error {
	fw, err := os.Create(zp)
	if err != nil {
		return err
	}
	defer fw.Close()
	zw := stdzip.NewWriter(fw)
	for _, e := range tr {
		switch e.Kind {
		case h.KDir:
			fh := &stdzip.FileHeader{Name: e.Path + "/"}
			fh.SetMode(os.ModeDir | 0755)
			if _, err := zw.CreateHeader(fh); err != nil {
				return err
			}
		case h.KLink:
			fh := &stdzip.FileHeader{Name: e.Path}
			fh.SetMode(os.ModeSymlink | 0777)
			w, err := zw.CreateHeader(fh)
			if err != nil {
				return err
			}
			if _, err := w.Write([]byte(e.Dest)); err != nil {
				return err
			}
		default:
			st, err := os.Lstat(filepath.Join(dir, filepath.FromSlash(e.Path)))
			if err != nil {
				return err
			}
			fh := &stdzip.FileHeader{Name: e.Path, Method: stdzip.Deflate}
			fh.SetMode(st.Mode())
			w, err := zw.CreateHeader(fh)
			if err != nil {
				return err
			}
			if _, err := w.Write(e.C.Bytes()); err != nil {
				return err
			}
		}
	}
	return zw.Close()
}

func indexOf(c *tlc.Container) func(kind, path string) int {
	m := map[string]int{}
	for i, f := range c.Files {
		m[h.KFile+f.Path] = i
	}
	for i, f := range c.Dirs {
		m[h.KDir+f.Path] = i
	}
	for i, f := range c.Symlinks {
		m[h.KLink+f.Path] = i
	}
	return func(kind, path string) int {
		if i, ok := m[kind+path]; ok {
			return i
		}
		return -1
	}
}

// jitterConsumer perturbs the schedule from the goroutines that call back
// into the consumer (validator, worker, healer).
func jitterConsumer(j []byte) *state.Consumer {
	if len(j) == 0 {
		return h.Quiet()
	}
	var n int64
	perturb := func() {
		i := atomic.AddInt64(&n, 1)
		b := j[int(i)%len(j)]
		switch {
		case b == 0:
		case b == 1:
			runtime.Gosched()
		default:
			time.Sleep(time.Duration(b%16) * 20 * time.Microsecond)
		}
	}
	return &state.Consumer{
		OnProgress:      func(float64) { perturb() },
		OnProgressLabel: func(string) { perturb() },
		OnMessage:       func(string, string) { perturb() },
	}
}

// underSymlinkedDir reports (from the disk, independent of wharf) whether path
// p lies below a signed directory that currently is a symlink resolving to an
// existing directory - the shape of known finding F14.
func underSymlinkedDir(dir string, signed h.Tree, p string) bool {
	parts := strings.Split(p, "/")
	for i := 1; i < len(parts); i++ {
		anc := strings.Join(parts[:i], "/")
		e := signed.Get(anc)
		if e == nil || e.Kind != h.KDir {
			continue
		}
		fp := filepath.Join(dir, filepath.FromSlash(anc))
		if st, err := os.Lstat(fp); err == nil && st.Mode()&os.ModeSymlink != 0 {
			if st2, err := os.Stat(fp); err == nil && st2.IsDir() {
				return true
			}
		}
	}
	return false
}

func check(s Spec) h.Result {
	d := h.TempDir("c06")
	defer os.RemoveAll(d)
	ref := filepath.Join(d, "ref")
	if err := s.Tree.Write(ref); err != nil {
		return h.Result{Skip: "cannot write tree"}
	}
	si, err := h.SignatureOf(ref, s.SigFile)
	if err != nil {
		return h.Failf("signing failed: %v", err)
	}
	c := si.Container
	zp := filepath.Join(d, []string{"build.zip", "build-48213", "build.zip.part", "archive.bin"}[s.Name%4])
	if s.Deflate {
		if err := writeDeflateZip(zp, ref, s.Tree); err != nil {
			return h.Result{Skip: "cannot write deflate archive: " + err.Error()}
		}
	} else {
		fw, err := os.Create(zp)
		if err != nil {
			return h.Result{Skip: "cannot create archive"}
		}
		_, err = archiver.CompressZip(fw, ref, h.Quiet())
		fw.Close()
		if err != nil {
			return h.Failf("CompressZip failed: %v", err)
		}
	}
	if s.Procs > 0 {
		defer runtime.GOMAXPROCS(runtime.GOMAXPROCS(s.Procs))
	}
	cl := h.DmgClasses(s.Tree, s.Damages)
	cl = append(cl, fmt.Sprintf("gomaxprocs:%d", s.Procs))
	if s.SigFile {
		cl = append(cl, "signature:read-back-from-a-stream")
	}
	if s.Name%4 != 0 {
		cl = append(cl, "archive:name-does-not-end-in-.zip")
	}
	if s.Deflate {
		cl = append(cl, "archive:deflate-zip")
	} else {
		cl = append(cl, "archive:stored-zip")
	}
	reps := s.Reps
	if reps < 1 {
		reps = 1
	}
	nt := false
	twinMsg, twinStop, twinDone := "", make(chan struct{}), make(chan struct{})
	if s.Twin {
		cl = append(cl, "process:another-build-healed-at-the-same-time")
		go func() {
			twinMsg, _ = healTwin(d, twinStop)
			close(twinDone)
		}()
		defer func() {
			select {
			case <-twinStop:
			default:
				close(twinStop)
			}
			<-twinDone
		}()
	}
	for rep := 0; rep < reps; rep++ {
		work := filepath.Join(d, fmt.Sprintf("work%d", rep))
		if err := s.Tree.Write(work); err != nil {
			return h.Result{Skip: "cannot write work copy"}
		}
		for _, dm := range s.Damages {
			if err := h.ApplyDmg(work, dm); err != nil {
				return h.Result{Skip: "cannot damage: " + err.Error()}
			}
		}
		devs := h.Observe(work, s.Tree, indexOf(c))
		_, lerr := os.Lstat(work)
		deviates := len(devs) > 0 || (lerr != nil && len(s.Tree) > 0)
		// F14 shape, observed before healing
		shape14 := map[string]bool{}
		for _, e := range s.Tree {
			if underSymlinkedDir(work, s.Tree, e.Path) {
				shape14[e.Path] = true
			}
		}
		var before h.Disk
		if !deviates && lerr == nil {
			before, _ = h.ReadDisk(work)
		}
		vctx := &pwr.ValidatorContext{HealPath: "archive," + zp, Consumer: jitterConsumer(s.Jitter)}
		err = vctx.Validate(context.Background(), work, si)
		if err != nil {
			return h.Result{Fail: fmt.Sprintf("healing a directory (%s) failed: %v", describe(devs, lerr), err), Classes: cl}
		}
		after := h.Observe(work, s.Tree, indexOf(c))
		if len(after) > 0 {
			a := after[0]
			mark := ""
			if shape14[a.Path] {
				mark = " [below a signed directory that was a symlink resolving to a directory]"
			}
			return h.Result{Fail: fmt.Sprintf("after healing, %s %s is still wrong: missing=%v wrong-kind=%v wrong-dest=%v shorter=%v longer=%v diffs=%v%s",
				a.Kind, a.Path, a.Missing, a.WrongKnd, a.WrongDst, a.Shorter, a.Longer, a.DiffOffsets, mark), Classes: cl}
		}
		if err := pwr.AssertValid(work, si); err != nil {
			return h.Result{Fail: fmt.Sprintf("fail-fast validation after healing failed: %v", err), Classes: cl}
		}
		healer, _ := vctx.WoundsConsumer.(pwr.Healer)
		if before != nil {
			now, err := h.ReadDisk(work)
			if err != nil {
				return h.Failf("cannot re-read healed dir: %v", err)
			}
			if m := h.DiffStrong(before, now); m != "" {
				return h.Result{Fail: "healing an already valid directory changed it: " + m, Classes: cl}
			}
			if healer != nil && healer.TotalHealed() != 0 {
				return h.Result{Fail: fmt.Sprintf("healing an already valid directory reports TotalHealed()=%d", healer.TotalHealed()), Classes: cl}
			}
			cl = append(cl, "dir:already-valid")
		} else {
			cl = append(cl, "dir:healed")
			fileHealed, otherWound := false, false
			for _, dv := range devs {
				if dv.Kind == h.KFile {
					fileHealed = true
				} else {
					otherWound = true
				}
			}
			if lerr != nil {
				fileHealed, otherWound = true, true
			}
			if fileHealed && otherWound {
				nt = true
			}
		}
		os.RemoveAll(work)
	}
	if s.Twin {
		close(twinStop)
		<-twinDone
		if twinMsg != "" {
			return h.Result{Fail: twinMsg, Classes: cl}
		}
	}
	return h.Result{Classes: cl, NonTrivial: nt, Sub: reps}
}

func describe(devs []h.Deviation, lerr error) string {
	if lerr != nil {
		return "build directory missing"
	}
	if len(devs) == 0 {
		return "already valid"
	}
	d := devs[0]
	return fmt.Sprintf("%d deviating entries, first: %s %s missing=%v wrong-kind=%v", len(devs), d.Kind, d.Path, d.Missing, d.WrongKnd)
}

// signed directory turned into a symlink by the damage sequence (spec-level predicate of F14)
func signedDirBecomesSymlink(s Spec) bool {
	for _, dm := range s.Damages {
		if dm.Op == "tolink" {
			if e := s.Tree.Get(dm.Path); e != nil && e.Kind == h.KDir {
				return true
			}
		}
	}
	return false
}

var prop = h.Prop[Spec]{
	ID: "C06", Name: "heal",
	Gen: func(t *rapid.T) Spec {
		tr := h.GenOldTree(t, h.GenOpts{MaxOld: 7})
		s := Spec{Tree: tr, Damages: h.GenDamages(t, tr, 4, true, true)}
		s.Procs = rapid.SampledFrom([]int{1, 2, 4, 16}).Draw(t, "gomaxprocs")
		if rapid.Bool().Draw(t, "jitter") {
			s.Jitter = rapid.SliceOfN(rapid.Byte(), 1, 12).Draw(t, "jitter-bytes")
		}
		s.Reps = 2
		s.Deflate = rapid.IntRange(0, 2).Draw(t, "deflate-archive") == 0
		s.SigFile = rapid.IntRange(0, 3).Draw(t, "signature-from-stream") == 0
		s.Twin = rapid.IntRange(0, 3).Draw(t, "another-heal-at-the-same-time") == 0
		if rapid.IntRange(0, 2).Draw(t, "archive-not-named-zip") == 0 {
			s.Name = rapid.IntRange(1, 3).Draw(t, "archive-name")
		}
		return s
	},
	Check: check,
	Predicates: map[string]func(Spec) bool{
		"c06.signed_dir_becomes_symlink": signedDirBecomesSymlink,
	},
}

func TestProp(t *testing.T) { h.Run(t, prop) }

func TestReplay(t *testing.T) {
	h.ReplayMain(t, map[string]h.Replayer{"heal": h.ReplayerOf(prop)})
}
