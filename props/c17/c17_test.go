// C17 Partial application by whitelist produces exactly the selected files.
package c17

import (
	"bytes"
	"encoding/gob"
	"fmt"
	"io"
	"os"
	"path/filepath"
	"sort"
	"sync"
	"testing"

	"verif/harness/h"

	"github.com/itchio/lake"
	"github.com/itchio/lake/pools/fspool"
	"github.com/itchio/wharf/pwr"
	"github.com/itchio/wharf/pwr/bowl"
	"github.com/itchio/wharf/pwr/patcher"
	"github.com/pkg/errors"
	"pgregory.net/rapid"
)

type Spec struct {
	Pair     h.Pair `json:"pair"`
	Comp     h.Comp `json:"comp"`
	Optimize bool   `json:"optimize,omitempty"`
	Parts    int    `json:"parts,omitempty"`
	Force    bool   `json:"force,omitempty"`
	Mode     string `json:"mode"` // empty | all | single | bits
	Single   int    `json:"single,omitempty"`
	Bits     []bool `json:"bits,omitempty"`
	// magic-index class: Many > 0 replaces Pair by Many small files; file
	// #Edit is edited (=> bsdiff series against old #Edit when optimized) and
	// is the one file left out of the whitelist.
	Many int `json:"many,omitempty"`
	Edit int `json:"edit,omitempty"`
	// StopAt > 0: additionally apply with the same whitelist in two sessions - stop at the StopAt-th
	// checkpoint, resume from its gob copy in a brand-new patcher (whitelist set again) and bowl
	StopAt int `json:"stop_at,omitempty"`
	// FalseEntries: the map handed to the patcher also has an explicit `false` entry for every file
	// that is not selected (a caller writing wl[i] = needsPatching(i)); the selected set is the same
	FalseEntries bool `json:"false_entries,omitempty"`
	// InPlace (with StopAt): the two sessions apply in place, each with a brand-new overlay bowl (a bowl that
	// has state to lose between sessions) onto a copy of the old build
	InPlace bool `json:"in_place,omitempty"`
	// DropAtResume (with StopAt, fresh bowls only): the second session's whitelist no longer has the file the
	// checkpoint was taken in (the caller changed its mind about that file while the process was down). That
	// file is then nobody's business; every other selected file must come out exactly, none other be touched.
	DropAtResume bool `json:"drop_at_resume,omitempty"`
}

type recBowl struct {
	bowl.Bowl
	mu      sync.Mutex
	writers map[int64]int
	transp  map[int64]int
}

func (b *recBowl) GetWriter(i int64) (bowl.EntryWriter, error) {
	b.mu.Lock()
	b.writers[i]++
	b.mu.Unlock()
	return b.Bowl.GetWriter(i)
}

func (b *recBowl) Transpose(t bowl.Transposition) error {
	b.mu.Lock()
	b.transp[t.SourceIndex]++
	b.mu.Unlock()
	return b.Bowl.Transpose(t)
}

type recPool struct {
	lake.Pool
	mu    sync.Mutex
	reads map[int64]int
}

func (p *recPool) GetReader(i int64) (io.Reader, error) {
	p.mu.Lock()
	p.reads[i]++
	p.mu.Unlock()
	return p.Pool.GetReader(i)
}

func (p *recPool) GetReadSeeker(i int64) (io.ReadSeeker, error) {
	p.mu.Lock()
	p.reads[i]++
	p.mu.Unlock()
	return p.Pool.GetReadSeeker(i)
}

func manyPair(n, edit int) h.Pair {
	var p h.Pair
	for i := 0; i < n; i++ {
		e := h.Entry{Path: fmt.Sprintf("f%05d", i), Kind: h.KFile, C: h.Content{{Src: 1 + i%6, Off: i * 40, Len: 30 + i%7}}}
		p.Old = append(p.Old, e)
		ne := e
		ne.C = h.Concat(e.C)
		if i == edit {
			ne.C = ne.C.XorRange(3, 5, 0x11)
		}
		p.New = append(p.New, ne)
	}
	return p
}

func check(s Spec) h.Result {
	pair := s.Pair
	if s.Many > 0 {
		pair = manyPair(s.Many, s.Edit)
	}
	d := h.TempDir("c17")
	defer os.RemoveAll(d)
	od, nd, out := filepath.Join(d, "old"), filepath.Join(d, "new"), filepath.Join(d, "out")
	if err := pair.Old.Write(od); err != nil {
		return h.Result{Skip: "cannot write old tree"}
	}
	if err := pair.New.Write(nd); err != nil {
		return h.Result{Skip: "cannot write new tree"}
	}
	df, err := h.Diff(od, nd, s.Comp, nil)
	if err != nil {
		return h.Failf("diff failed: %v", err)
	}
	patch := df.Patch
	if s.Optimize {
		patch, err = h.Optimize(df.Patch, od, nd, h.OptParams{Partitions: s.Parts, Comp: s.Comp, ForceMapAll: s.Force})
		if err != nil {
			return h.Failf("optimize failed: %v", err)
		}
	}
	dp, err := h.DecodePatch(patch)
	if err != nil {
		return h.Failf("cannot decode patch: %v", err)
	}
	nf := len(dp.New.Files)
	wl := map[int64]bool{}
	switch {
	case s.Many > 0:
		for i := 0; i < nf; i++ {
			if i != s.Edit {
				wl[int64(i)] = true
			}
		}
	case s.Mode == "all":
		for i := 0; i < nf; i++ {
			wl[int64(i)] = true
		}
	case s.Mode == "single":
		if nf > 0 {
			wl[int64(s.Single%nf)] = true
		}
	case s.Mode == "bits":
		for i := 0; i < nf; i++ {
			if len(s.Bits) > 0 && s.Bits[i%len(s.Bits)] {
				wl[int64(i)] = true
			}
		}
	}
	var cl []string
	cl = append(cl, "whitelist:"+s.Mode)
	// given is the map the patcher receives, wl stays the selected set
	given := wl
	if s.FalseEntries {
		given = map[int64]bool{}
		for i := 0; i < nf; i++ {
			given[int64(i)] = wl[int64(i)]
		}
		if len(given) > len(wl) {
			cl = append(cl, "whitelist:explicit-false-entries")
		}
	}
	if s.Optimize {
		cl = append(cl, "patch:optimized")
	}
	// expected read set from the decoded patch
	wantReads := map[int64]bool{}
	kinds := map[string]bool{}
	adjacent := false
	for i, sr := range dp.Series {
		kind := "rsync"
		if sr.Bsdiff {
			kind = "bsdiff"
		} else if _, ok := dp.IsWholeFile(sr); ok {
			kind = "wholefile"
		} else if len(sr.Ops) == 1 && sr.Ops[0].Type == pwr.SyncOp_DATA && len(sr.Ops[0].Data) == 0 {
			kind = "emptyfile"
		}
		if wl[sr.FileIndex] {
			kinds["selected:"+kind] = true
			if sr.Bsdiff {
				wantReads[sr.Target] = true
			} else {
				for _, op := range sr.Ops {
					if op.Type == pwr.SyncOp_BLOCK_RANGE {
						wantReads[op.FileIndex] = true
					}
				}
			}
		} else {
			kinds["skipped:"+kind] = true
			if sr.Bsdiff && sr.Target == 2049 {
				kinds["skipped:bsdiff-target-2049"] = true
			}
			if (i > 0 && wl[dp.Series[i-1].FileIndex]) || (i+1 < len(dp.Series) && wl[dp.Series[i+1].FileIndex]) {
				adjacent = true
			}
		}
	}
	for k := range kinds {
		cl = append(cl, k)
	}
	sort.Strings(cl)

	rp := &recPool{reads: map[int64]int{}}
	rb := &recBowl{writers: map[int64]int{}, transp: map[int64]int{}}
	var touched int64
	err = h.ApplyFresh(patch, od, out, &h.ApplyOpts{
		Whitelist: given,
		Touched:   &touched,
		WrapPool:  func(p lake.Pool) lake.Pool { rp.Pool = p; return rp },
		WrapBowl:  func(b bowl.Bowl) bowl.Bowl { rb.Bowl = b; return rb },
	})
	if err != nil {
		return h.Result{Fail: fmt.Sprintf("whitelisted application failed: %v", err), Classes: cl}
	}
	if touched != int64(len(wl)) {
		return h.Result{Fail: fmt.Sprintf("GetTouchedFiles()=%d, whitelist has %d files", touched, len(wl)), Classes: cl}
	}
	want := pair.New.Expect()
	for i := 0; i < nf; i++ {
		idx := int64(i)
		c := rb.writers[idx] + rb.transp[idx]
		f := dp.New.Files[i]
		if wl[idx] && c != 1 {
			return h.Result{Fail: fmt.Sprintf("file %d (%s) is whitelisted but the bowl got %d GetWriter/Transpose calls for it", i, f.Path, c), Classes: cl}
		}
		if !wl[idx] && c != 0 {
			return h.Result{Fail: fmt.Sprintf("file %d (%s) is not whitelisted but the bowl got %d GetWriter/Transpose calls for it", i, f.Path, c), Classes: cl}
		}
		if wl[idx] {
			got, err := os.ReadFile(filepath.Join(out, filepath.FromSlash(f.Path)))
			if err != nil {
				return h.Result{Fail: fmt.Sprintf("whitelisted file %s missing from the output: %v", f.Path, err), Classes: cl}
			}
			if w := want[f.Path]; w == nil || !bytes.Equal(got, w.Data) {
				return h.Result{Fail: fmt.Sprintf("whitelisted file %s differs from the new build", f.Path), Classes: cl}
			}
		}
	}
	for idx := range rp.reads {
		if !wantReads[idx] {
			return h.Result{Fail: fmt.Sprintf("old file %d was read although no whitelisted series references it", idx), Classes: cl}
		}
	}
	nt := len(wl) > 0 && adjacent
	if s.StopAt > 0 && s.Many == 0 {
		if m := stopAndResume(s, pair.Old, patch, od, filepath.Join(d, "out2"), wl, given, wantReads, dp, want, &cl); m != "" {
			return h.Result{Fail: m, Classes: cl}
		}
	}
	return h.Result{Classes: cl, NonTrivial: nt}
}

type stopper struct {
	n, stopAt int
	ck        []byte
	err       error
}

func (sc *stopper) ShouldSave() bool { return true }
func (sc *stopper) Save(c *patcher.Checkpoint) (patcher.AfterSaveAction, error) {
	sc.n++
	if sc.n == sc.stopAt {
		b := new(bytes.Buffer)
		if err := gob.NewEncoder(b).Encode(c); err != nil {
			sc.err = err
			return patcher.AfterSaveStop, err
		}
		sc.ck = b.Bytes()
		return patcher.AfterSaveStop, nil
	}
	return patcher.AfterSaveContinue, nil
}

// stopAndResume applies the patch with the whitelist in two sessions and checks the same things as the
// one-shot application, summed over both sessions.
func stopAndResume(s Spec, oldTree h.Tree, patch []byte, od, out string, wl, given map[int64]bool, wantReads map[int64]bool, dp *h.DecodedPatch, want h.Disk, cl *[]string) string {
	calls := map[int64]int{}
	var touched int64
	var ck []byte
	dropped := int64(-1)
	for session := 0; session < 2; session++ {
		p, err := patcher.New(h.Source(patch), h.Quiet())
		if err != nil {
			return fmt.Sprintf("patcher.New: %v", err)
		}
		if session == 1 && s.DropAtResume && !s.InPlace && dropped < 0 {
			pc := &patcher.Checkpoint{}
			if err := gob.NewDecoder(bytes.NewReader(ck)).Decode(pc); err == nil && wl[pc.FileIndex] && len(wl) > 1 {
				dropped = pc.FileIndex
				g2 := map[int64]bool{}
				for k, v := range given {
					g2[k] = v
				}
				for k := range wl {
					g2[k] = true // an absent or empty map means "all files": spell the selection out
				}
				delete(g2, dropped)
				given = g2
				*cl = append(*cl, "whitelist:file-in-progress-dropped-at-resume")
			}
		}
		p.SetSourceIndexWhitelist(given)
		st := &stopper{stopAt: -1}
		if session == 0 {
			st.stopAt = s.StopAt
		}
		p.SetSaveConsumer(st)
		oldAt := od
		if s.InPlace {
			oldAt = out
			if session == 0 {
				if err := oldTree.Write(out); err != nil {
					return ""
				}
				*cl = append(*cl, "whitelist:stopped-and-resumed-in-place")
			}
		}
		rp := &recPool{Pool: fspool.New(p.GetTargetContainer(), oldAt), reads: map[int64]int{}}
		var fb bowl.Bowl
		if s.InPlace {
			fb, err = bowl.NewOverlayBowl(bowl.OverlayBowlParams{SourceContainer: p.GetSourceContainer(), TargetContainer: p.GetTargetContainer(), OutputFolder: out, StageFolder: out + ".stage", Consumer: h.Quiet()})
		} else {
			fb, err = bowl.NewFreshBowl(bowl.FreshBowlParams{SourceContainer: p.GetSourceContainer(), TargetContainer: p.GetTargetContainer(), TargetPool: rp, OutputFolder: out})
		}
		if err != nil {
			return fmt.Sprintf("new bowl: %v", err)
		}
		rb := &recBowl{Bowl: fb, writers: map[int64]int{}, transp: map[int64]int{}}
		var c *patcher.Checkpoint
		if ck != nil {
			c = &patcher.Checkpoint{}
			if err := gob.NewDecoder(bytes.NewReader(ck)).Decode(c); err != nil {
				return fmt.Sprintf("checkpoint does not survive gob: %v", err)
			}
		}
		err = p.Resume(c, rp, rb)
		stopped := errors.Cause(err) == patcher.ErrStop
		if err != nil && !stopped && dropped >= 0 {
			// a whitelist that changes between the sessions of one application is not among the subsets the
			// statement quantifies over: a refusal is no verdict (unchanged wharf refuses when the checkpoint lies
			// inside a bsdiff series, whose header skipFile expects to read); only a nil with wrong files is judged
			rb.Close()
			*cl = append(*cl, "whitelist:resume-without-the-file-in-progress-refused")
			return ""
		}
		if err != nil && !stopped {
			rb.Close()
			return fmt.Sprintf("whitelisted application, session %d (stop at checkpoint %d): %v", session, s.StopAt, err)
		}
		if !stopped {
			if err := rb.Commit(); err != nil {
				return fmt.Sprintf("commit: %v", err)
			}
		}
		rb.Close()
		touched += p.GetTouchedFiles()
		for i, n := range rb.writers {
			calls[i] += n
		}
		for i, n := range rb.transp {
			calls[i] += n
		}
		for idx := range rp.reads {
			if !wantReads[idx] {
				return fmt.Sprintf("stop/resume with a whitelist, session %d: old file %d was read although no whitelisted series references it", session, idx)
			}
		}
		for i := range calls {
			if !wl[i] {
				return fmt.Sprintf("stop/resume with a whitelist, session %d: the bowl was asked to write file %d (%s), which is not whitelisted", session, i, dp.New.Files[i].Path)
			}
		}
		if !stopped {
			break
		}
		ck = st.ck
		*cl = append(*cl, "whitelist:stopped-and-resumed")
	}
	wantTouched := int64(len(wl))
	if dropped >= 0 {
		wantTouched-- // stopped inside it (or right before it), then skipped
	}
	if touched != wantTouched {
		return fmt.Sprintf("stop/resume with a whitelist: sessions report %d touched files in total, the whitelist has %d (file dropped at resume: %d)", touched, len(wl), dropped)
	}
	for i, f := range dp.New.Files {
		if !wl[int64(i)] || int64(i) == dropped {
			continue
		}
		got, err := os.ReadFile(filepath.Join(out, filepath.FromSlash(f.Path)))
		if err != nil {
			return fmt.Sprintf("stop/resume with a whitelist: whitelisted file %s missing: %v", f.Path, err)
		}
		if w := want[f.Path]; w == nil || !bytes.Equal(got, w.Data) {
			return fmt.Sprintf("stop/resume with a whitelist: whitelisted file %s differs from the new build", f.Path)
		}
	}
	return ""
}

func genComp(t *rapid.T) h.Comp {
	switch rapid.IntRange(0, 3).Draw(t, "algo") {
	case 0, 1:
		return h.Comp{}
	case 2:
		return h.Comp{Algo: 2, Q: rapid.IntRange(1, 9).Draw(t, "q-gzip")}
	default:
		return h.Comp{Algo: 1, Q: rapid.IntRange(0, 5).Draw(t, "q-brotli")}
	}
}

var prop = h.Prop[Spec]{
	ID: "C17", Name: "whitelist",
	Gen: func(t *rapid.T) Spec {
		s := Spec{Pair: h.GenPair(t, h.GenOpts{KindChange: true, MaxOld: 7, ConstCap: 16384}), Comp: genComp(t)}
		s.Optimize = rapid.Bool().Draw(t, "optimize")
		if s.Optimize {
			s.Parts = rapid.IntRange(0, 2).Draw(t, "parts")
			s.Force = rapid.IntRange(0, 3).Draw(t, "force") == 0
		}
		s.Mode = rapid.SampledFrom([]string{"empty", "all", "single", "bits", "bits", "bits"}).Draw(t, "mode")
		switch s.Mode {
		case "single":
			s.Single = rapid.IntRange(0, 12).Draw(t, "single")
		case "bits":
			s.Bits = rapid.SliceOfN(rapid.Bool(), 1, 8).Draw(t, "bits")
		}
		s.FalseEntries = rapid.IntRange(0, 3).Draw(t, "false-entries") == 0
		if rapid.IntRange(0, 2).Draw(t, "stop-and-resume") == 0 {
			s.StopAt = rapid.IntRange(1, 4).Draw(t, "stop-at")
			s.InPlace = rapid.IntRange(0, 2).Draw(t, "in-place") == 0
			s.DropAtResume = !s.InPlace && rapid.IntRange(0, 2).Draw(t, "drop-at-resume") == 0
			// a multi-block, multi-edit file first in the new build, so that checkpoints are offered inside it
			oc := h.Content{{Src: 20, Len: rapid.IntRange(3, 8).Draw(t, "big-blocks")*h.BS + 77}}
			nc := h.EditContent(t, oc, rapid.IntRange(3, 8).Draw(t, "big-edits"), nil)
			if s.Pair.Old.CanAdd("0big") && s.Pair.New.CanAdd("0big") {
				s.Pair.Old = s.Pair.Old.Add(h.Entry{Path: "0big", Kind: h.KFile, C: oc})
				s.Pair.New = s.Pair.New.Add(h.Entry{Path: "0big", Kind: h.KFile, C: nc})
			}
		}
		return s
	},
	Check: check,
}

// magic-index class: the numeric value of the end marker (2049) shares field
// number 1 with BsdiffHeader.targetIndex; found by reading the code.
var propMagic = h.Prop[Spec]{
	ID: "C17", Name: "magic",
	Gen: func(t *rapid.T) Spec {
		s := Spec{Comp: genComp(t), Optimize: true, Mode: "all-but-edited"}
		s.Many = rapid.SampledFrom([]int{2051, 2060, 2100}).Draw(t, "many")
		s.Edit = rapid.SampledFrom([]int{2049, 2049, 2049, 2048, 2050, 0, 1024}).Draw(t, "edit")
		return s
	},
	Check: check,
}

func TestProp(t *testing.T)  { h.Run(t, prop) }
func TestMagic(t *testing.T) { h.Run(t, propMagic) }

func TestReplay(t *testing.T) {
	h.ReplayMain(t, map[string]h.Replayer{"whitelist": h.ReplayerOf(prop), "magic": h.ReplayerOf(propMagic)})
}
