// C09 Applying through the safekeeper never yields a silently wrong result.
package c09

import (
	"bytes"
	"fmt"
	"os"
	"path/filepath"
	"testing"

	"verif/harness/h"

	"github.com/itchio/lake/pools/fspool"
	"github.com/itchio/wharf/pwr"
	"github.com/itchio/wharf/wsync"
	"pgregory.net/rapid"
)

// Damage is one modification of an old file on disk.
type Damage struct {
	Path string `json:"path"`
	Kind string `json:"kind"` // flip | truncate | extend | delete
	Off  int    `json:"off,omitempty"`
	Len  int    `json:"len,omitempty"` // truncate: new length; extend: number of bytes added
}

type Spec struct {
	Pair     h.Pair   `json:"pair"`
	Comp     h.Comp   `json:"comp"`
	Optimize bool     `json:"optimize,omitempty"`
	Parts    int      `json:"parts,omitempty"`
	Damages  []Damage `json:"damages"`
	// Peek > 0: the safekeeper has been used before the application starts (Peek bytes of old file PeekIdx read
	// through its GetReadSeeker): verdicts are cached and the inner pool's handle is somewhere in that file
	Peek    int `json:"peek,omitempty"`
	PeekIdx int `json:"peek_idx,omitempty"`
	// SigCut > 0: the safekeeper is given only the first SigCut bytes of the old build's signature stream
	// (-1: none of it): the signature cannot be loaded, and the application must fail - never complete with
	// something else than the new build
	SigCut int `json:"sig_cut,omitempty"`
	// StopAt > 0: the application stops at its StopAt-th checkpoint and is resumed by a new patcher and bowl
	// with the SAME safekeeper (closed by the first session on its way out), whose signature can be fetched
	// only once: the once-only loading of the signature is what the second session lives on
	StopAt int `json:"stop_at,omitempty"`
}

// apply the damages to a copy of the old tree's bytes (the model) and to disk
func applyDamage(dir string, data map[string][]byte, dm Damage) error {
	fp := filepath.Join(dir, filepath.FromSlash(dm.Path))
	cur, ok := data[dm.Path]
	if !ok {
		return nil // already deleted
	}
	switch dm.Kind {
	case "flip":
		if dm.Off < len(cur) {
			cur = append([]byte{}, cur...)
			cur[dm.Off] ^= 4
		}
	case "collide": // same rolling hash, different bytes (falls back to a flip)
		if dm.Off < len(cur) {
			cur = append([]byte{}, cur...)
			if !h.CollideBytes(cur, dm.Off) {
				cur[dm.Off] ^= 4
			}
		}
	case "truncate":
		if dm.Len < len(cur) {
			cur = cur[:dm.Len]
		}
	case "extend":
		ext := h.Content{{Src: 9, Off: 77, Len: dm.Len}}.Bytes()
		cur = append(append([]byte{}, cur...), ext...)
	case "delete":
		delete(data, dm.Path)
		return os.Remove(fp)
	}
	data[dm.Path] = cur
	return os.WriteFile(fp, cur, 0o644)
}

func check(s Spec) h.Result {
	d := h.TempDir("c09")
	defer os.RemoveAll(d)
	od, nd, dd, out, empty := filepath.Join(d, "old"), filepath.Join(d, "new"), filepath.Join(d, "dmg"), filepath.Join(d, "out"), filepath.Join(d, "empty")
	if err := s.Pair.Old.Write(od); err != nil {
		return h.Result{Skip: "cannot write old tree"}
	}
	if err := s.Pair.New.Write(nd); err != nil {
		return h.Result{Skip: "cannot write new tree"}
	}
	if err := s.Pair.Old.Write(dd); err != nil {
		return h.Result{Skip: "cannot write damaged copy"}
	}
	os.MkdirAll(empty, 0o755)
	df, err := h.Diff(od, nd, s.Comp, nil)
	if err != nil {
		return h.Failf("diff failed: %v", err)
	}
	patch := df.Patch
	if s.Optimize {
		patch, err = h.Optimize(df.Patch, od, nd, h.OptParams{Partitions: s.Parts, Comp: s.Comp})
		if err != nil {
			return h.Failf("optimize failed: %v", err)
		}
	}
	// signature of the old build, as emitted by WritePatch when old is the "new" side
	sdf, err := h.Diff(empty, od, s.Comp, nil)
	if err != nil {
		return h.Failf("signing the old build failed: %v", err)
	}
	dp, err := h.DecodePatch(patch)
	if err != nil {
		return h.Failf("cannot decode patch: %v", err)
	}
	// which (old file, block) pairs does the patch read?
	readBlocks := map[string]map[int64]bool{}
	mark := func(fi int64, lo, hi int64) {
		if fi < 0 || int(fi) >= len(dp.Old.Files) {
			return
		}
		p := dp.Old.Files[fi].Path
		if readBlocks[p] == nil {
			readBlocks[p] = map[int64]bool{}
		}
		for b := lo; b < hi; b++ {
			readBlocks[p][b] = true
		}
	}
	var cl []string
	for _, sr := range dp.Series {
		if sr.Bsdiff {
			cl = append(cl, "reuse:bsdiff")
			mark(sr.Target, 0, h.NumBlocks(dp.Old.Files[sr.Target].Size)+1)
			continue
		}
		if _, ok := dp.IsWholeFile(sr); ok {
			cl = append(cl, "reuse:wholefile")
		}
		for _, op := range sr.Ops {
			if op.Type == pwr.SyncOp_BLOCK_RANGE {
				cl = append(cl, "reuse:blockrange")
				mark(op.FileIndex, op.BlockIndex, op.BlockIndex+op.BlockSpan)
			}
		}
	}
	// model + disk damage
	data := map[string][]byte{}
	orig := map[string][]byte{}
	for _, e := range s.Pair.Old {
		if e.Kind == h.KFile {
			b := e.C.Bytes()
			data[e.Path] = b
			orig[e.Path] = b
		}
	}
	hits := false
	for _, dm := range s.Damages {
		if _, ok := orig[dm.Path]; !ok {
			continue
		}
		if err := applyDamage(dd, data, dm); err != nil {
			return h.Result{Skip: "cannot damage: " + err.Error()}
		}
		cl = append(cl, "damage:"+dm.Kind)
		rb := readBlocks[dm.Path]
		switch dm.Kind {
		case "flip", "collide":
			if rb[int64(dm.Off/h.BS)] {
				hits = true
			}
		case "truncate":
			for b := range rb {
				if (b+1)*h.BS > int64(dm.Len) {
					hits = true
				}
			}
			if dm.Len%h.BS == 0 {
				cl = append(cl, "damage:truncate-at-block-boundary")
			}
		case "extend":
			if len(rb) > 0 {
				hits = true
			}
			if (len(orig[dm.Path])%h.BS) != 0 && len(orig[dm.Path])%h.BS+dm.Len <= h.BS {
				cl = append(cl, "damage:extend-inside-last-block")
			} else {
				cl = append(cl, "damage:extend-past-last-block")
			}
			if len(orig[dm.Path])%h.BS == 0 && len(orig[dm.Path]) > 0 {
				cl = append(cl, "damage:extend-file-of-exact-block-multiple")
			}
		case "delete":
			if len(rb) > 0 {
				hits = true
			}
		}
	}
	damaged := false
	for p, b := range orig {
		if nb, ok := data[p]; !ok || !bytes.Equal(nb, b) {
			damaged = true
		}
	}
	if damaged {
		cl = append(cl, "old:damaged")
	} else {
		cl = append(cl, "old:undamaged")
	}
	if s.Peek > 0 {
		cl = append(cl, "safekeeper:used-before-the-application")
	}
	sig := sdf.Sig
	if s.SigCut != 0 {
		n := s.SigCut
		if n < 0 {
			n = 0
		}
		if n < len(sig) {
			sig = sig[:n]
			cl = append(cl, "signature:unreadable-(cut-short)")
		}
	}
	wrap := h.SafeKeeperWrap(sig)
	if s.StopAt > 0 {
		wrap = h.SafeKeeperWrapOnce(sig)
		cl = append(cl, "sessions:stop-and-resume-with-the-same-safekeeper,-signature-fetchable-once")
	}
	err = h.ApplyFresh(patch, dd, out, &h.ApplyOpts{WrapPool: wrap, Peek: s.Peek, PeekIdx: s.PeekIdx, StopAt: s.StopAt})
	// second route: the same rsync series applied through wsync.Context.ApplyPatch (the channel entry point of
	// wsync/algo.go) with the safekeeper as the pool; same verdicts, file by file
	if m := viaApplyPatch(dp, dd, sig, s.Pair.New, damaged, len(sig) < len(sdf.Sig)); m != "" {
		return h.Result{Fail: m, Classes: cl}
	}
	cl = append(cl, "route:wsync.ApplyPatch-as-well")
	if len(sig) < len(sdf.Sig) {
		// no verdict about rejection with a broken signature; only: error, or exactly the new build
		if err == nil {
			if m := h.CheckDir(out, s.Pair.New, false); m != "" {
				return h.Result{Fail: fmt.Sprintf("the safekeeper could not load its signature (%d of %d bytes), yet the application succeeded with a wrong result: %s", len(sig), len(sdf.Sig), m), Classes: cl}
			}
		}
		return h.Result{Classes: cl}
	}
	if err == nil {
		if m := h.CheckDir(out, s.Pair.New, false); m != "" {
			if damaged {
				return h.Result{Fail: "application through the safekeeper over a damaged old build succeeded with a wrong result: " + m, Classes: cl}
			}
			return h.Result{Fail: "application through the safekeeper over an undamaged old build produced a wrong result: " + m, Classes: cl}
		}
		if damaged {
			cl = append(cl, "outcome:damaged-but-correct")
		} else {
			cl = append(cl, "outcome:undamaged-accepted")
		}
	} else {
		if !damaged {
			return h.Result{Fail: fmt.Sprintf("an undamaged old build was rejected: %v", err), Classes: cl}
		}
		cl = append(cl, "outcome:damaged-rejected")
	}
	if hits {
		cl = append(cl, "damage:in-a-block-the-patch-reads")
	}
	return h.Result{Classes: cl, NonTrivial: hits}
}

// viaApplyPatch applies every rsync series of the patch with wsync's ApplyPatch, reading the old build through
// a safekeeper of its own. The operations are queued beforehand: the channel is closed before the call.
func viaApplyPatch(dp *h.DecodedPatch, dd string, sig []byte, nw h.Tree, damaged, sigBroken bool) string {
	want := map[string][]byte{}
	for _, e := range nw {
		if e.Kind == h.KFile {
			want[e.Path] = e.C.Bytes()
		}
	}
	// one pool for as long as nothing fails, a new one after an error: a caller stops at the first error, and
	// lake's fspool is not usable after a failed open (it hands out a nil reader for the file it held before)
	pool := h.SafeKeeperWrap(sig)(fspool.New(dp.Old, dd))
	defer func() { pool.Close() }()
	wctx := wsync.NewContext(h.BS)
	for _, sr := range dp.Series {
		if sr.Bsdiff || int(sr.FileIndex) >= len(dp.New.Files) {
			continue
		}
		ops := make(chan wsync.Operation, len(sr.Ops))
		for _, op := range sr.Ops {
			switch op.Type {
			case pwr.SyncOp_BLOCK_RANGE:
				ops <- wsync.Operation{Type: wsync.OpBlockRange, FileIndex: op.FileIndex, BlockIndex: op.BlockIndex, BlockSpan: op.BlockSpan}
			case pwr.SyncOp_DATA:
				ops <- wsync.Operation{Type: wsync.OpData, Data: op.Data}
			}
		}
		close(ops)
		var out bytes.Buffer
		err := wctx.ApplyPatch(&out, pool, ops)
		p := dp.New.Files[sr.FileIndex].Path
		if err == nil {
			if !bytes.Equal(out.Bytes(), want[p]) {
				return fmt.Sprintf("wsync.ApplyPatch through the safekeeper (old build damaged=%v, signature readable=%v) returned nil for %s with a wrong result: %d bytes, want %d, first difference at %d", damaged, !sigBroken, p, out.Len(), len(want[p]), h.FirstDiff(out.Bytes(), want[p]))
			}
		} else {
			if !damaged && !sigBroken {
				return fmt.Sprintf("wsync.ApplyPatch through the safekeeper rejected an undamaged old build at %s: %v", p, err)
			}
			pool.Close()
			pool = h.SafeKeeperWrap(sig)(fspool.New(dp.Old, dd))
		}
	}
	return ""
}

func genDamage(t *rapid.T, old h.Tree) []Damage {
	files := old.Files()
	if len(files) == 0 {
		return nil
	}
	n := rapid.SampledFrom([]int{0, 1, 1, 1, 2}).Draw(t, "ndamage")
	var out []Damage
	for i := 0; i < n; i++ {
		p := rapid.SampledFrom(files).Draw(t, "victim")
		size := old.Get(p).C.Len()
		dm := Damage{Path: p}
		switch rapid.IntRange(0, 9).Draw(t, "damage-kind") {
		case 0, 1, 2, 3:
			dm.Kind = "flip"
			if size == 0 {
				dm.Kind = "extend"
				dm.Len = rapid.SampledFrom([]int{1, 7, h.BS, h.BS + 1}).Draw(t, "fill-empty")
				break
			}
			nb := (size + h.BS - 1) / h.BS
			b := rapid.IntRange(0, nb-1).Draw(t, "flip-block")
			off := b*h.BS + rapid.SampledFrom([]int{0, 1, 100, h.BS - 1}).Draw(t, "flip-in-block")
			if rapid.IntRange(0, 4).Draw(t, "flip-last-byte") == 0 || off >= size {
				off = size - 1
			}
			dm.Off = off
			if rapid.IntRange(0, 3).Draw(t, "same-weak-hash") == 0 {
				dm.Kind = "collide"
			}
		case 4, 5, 6:
			dm.Kind = "truncate"
			nb := size / h.BS
			l := rapid.IntRange(0, nb).Draw(t, "trunc-block")*h.BS + rapid.SampledFrom([]int{-1, 0, 0, 1}).Draw(t, "trunc-delta")
			if rapid.IntRange(0, 5).Draw(t, "trunc-random") == 0 {
				l = rapid.IntRange(0, size).Draw(t, "trunc-len")
			}
			if l < 0 {
				l = 0
			}
			dm.Len = l
		case 7, 8:
			dm.Kind = "extend"
			rem := h.BS - size%h.BS
			dm.Len = rapid.SampledFrom([]int{1, 7, rem - 1, rem, rem + 1, 2 * h.BS}).Draw(t, "extend")
			if dm.Len <= 0 {
				dm.Len = 1
			}
		default:
			dm.Kind = "delete"
		}
		out = append(out, dm)
	}
	return out
}

var prop = h.Prop[Spec]{
	ID: "C09", Name: "safekeeper",
	Gen: func(t *rapid.T) Spec {
		s := Spec{Pair: h.GenPair(t, h.GenOpts{KindChange: true, ConstCap: 16384})}
		switch rapid.IntRange(0, 5).Draw(t, "algo") {
		case 4:
			s.Comp = h.Comp{Algo: 2, Q: 1}
		case 5:
			s.Comp = h.Comp{Algo: 1, Q: 1}
		}
		s.Optimize = rapid.IntRange(0, 2).Draw(t, "optimize") == 0
		if rapid.IntRange(0, 2).Draw(t, "shuffled-file") == 0 {
			// a multi-block file whose regions are reordered (+ sparse edits): its bsdiff
			// series reads the old file out of order, through one long-lived reader
			nb := rapid.IntRange(2, 6).Draw(t, "shuffle-blocks")
			oc := h.Content{{Src: 40, Len: nb*h.BS + rapid.SampledFrom([]int{0, 1, 777}).Draw(t, "shuffle-tail")}}
			cut := rapid.IntRange(1, nb-1).Draw(t, "shuffle-cut")*h.BS + rapid.SampledFrom([]int{0, 0, 5, -5}).Draw(t, "shuffle-cut-delta")
			nc := h.Concat(oc.Slice(cut, oc.Len()), oc.Slice(0, cut))
			for i := 0; i < rapid.IntRange(0, 6).Draw(t, "shuffle-edits"); i++ {
				off := rapid.IntRange(0, nc.Len()-1).Draw(t, "shuffle-edit-off")
				nc = nc.XorRange(off, off+1, 0x3)
			}
			if s.Pair.Old.CanAdd("s") && s.Pair.New.CanAdd("s") {
				s.Pair.Old = s.Pair.Old.Add(h.Entry{Path: "s", Kind: h.KFile, C: oc})
				s.Pair.New = s.Pair.New.Add(h.Entry{Path: "s", Kind: h.KFile, C: nc})
				s.Optimize = true
			}
		}
		if s.Optimize {
			s.Parts = rapid.IntRange(0, 2).Draw(t, "parts")
		}
		s.Damages = genDamage(t, s.Pair.Old)
		if rapid.IntRange(0, 9).Draw(t, "cut-signature") == 0 {
			// cuts inside magic or right behind it only: ReadSignature must fail there under every compression
			// setting. (A stream cut right behind its header reads back, without error, as the signature of an
			// EMPTY build; a safekeeper given that for a non-empty build indexes out of range. That is a
			// signature of another build, which C09 does not quantify over - noted in DESIGN §11.)
			s.SigCut = rapid.SampledFrom([]int{-1, 1, 4, 5}).Draw(t, "sig-cut")
		}
		if rapid.IntRange(0, 2).Draw(t, "stop-and-resume") == 0 {
			s.StopAt = rapid.IntRange(1, 3).Draw(t, "stop-at")
		}
		if rapid.IntRange(0, 3).Draw(t, "used-safekeeper") == 0 {
			s.Peek = rapid.SampledFrom([]int{1, h.BS + 1, 1 << 30}).Draw(t, "peek-bytes")
			s.PeekIdx = rapid.IntRange(0, 7).Draw(t, "peek-idx")
		}
		return s
	},
	Check: check,
}

func TestProp(t *testing.T) { h.Run(t, prop) }

func TestReplay(t *testing.T) {
	h.ReplayMain(t, map[string]h.Replayer{"safekeeper": h.ReplayerOf(prop)})
}
