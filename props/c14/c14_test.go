// C14 An overlay turns the old file into the new file, whatever the write pattern.
package c14

import (
	"bytes"
	"encoding/gob"
	"fmt"
	"io"
	"os"
	"path/filepath"
	"testing"

	"verif/harness/h"

	"github.com/itchio/lake/tlc"
	"github.com/itchio/wharf/pwr/bowl"
	"github.com/itchio/wharf/pwr/overlay"
	"github.com/itchio/wharf/wire"
	"github.com/pkg/errors"
	"pgregory.net/rapid"
)

type Run struct {
	Len   int  `json:"n"`
	Equal bool `json:"eq,omitempty"`
}

type Spec struct {
	Entropy string `json:"entropy"` // high | periodic | constant
	Period  int    `json:"period,omitempty"`
	Runs    []Run  `json:"runs"`
	OldCut  int    `json:"old_cut,omitempty"` // bytes removed from the end of old (new longer)
	NewCut  int    `json:"new_cut,omitempty"` // bytes removed from the end of new (new shorter)
	Slices  []int  `json:"slices"`            // write sizes, cyclic
	Actions []int  `json:"actions"`           // after each write, cyclic: 0 nothing, 1 flush, 2 flush + new session (stale tail kept), 3 flush + new session (tail cut)
	Pre     []int  `json:"pre,omitempty"`     // the same actions, applied right after creation, before any data is written
	// Grown (bowl stage): the old file on disk is this many bytes longer than the old build's container says
	// (a log or save file appended to after install); the overlay is computed against what is on disk
	Grown int `json:"grown,omitempty"`
	// Copies (direct stage), cyclic: write k is not a Write call but an io.Copy from a plain reader holding the
	// same bytes (io.Copy picks whatever the writer offers: ReadFrom if it has one, Write calls of 32 KiB if not)
	Copies []bool `json:"copies,omitempty"`
	// Abandon > 0 (bowl stage): before the sessions that count, a first attempt at the same file on the same bowl
	// object writes this many bytes of the new content and is given up (Close without Finalize, no checkpoint);
	// the file is then started over from scratch with a new writer of that bowl
	Abandon int `json:"abandon,omitempty"`
	// Shift > 0: the new content lost its first Shift bytes (a dropped prefix): what follows equals the old
	// content Shift bytes further on - equal runs are equal to the wrong place of the old file
	Shift int `json:"shift,omitempty"`
}

// plainReader hides every method but Read
type plainReader struct{ r io.Reader }

func (p plainReader) Read(b []byte) (int, error) { return p.r.Read(b) }

func contents(s Spec) (old, nw []byte) {
	total := 0
	for _, r := range s.Runs {
		total += r.Len
	}
	var base []byte
	switch s.Entropy {
	case "periodic":
		p := s.Period
		if p < 1 {
			p = 1
		}
		base = h.Content{{Src: 100 + p, Len: total}}.Bytes()
	case "constant":
		base = bytes.Repeat([]byte{7}, total)
	default:
		base = h.Content{{Src: 1, Len: total}}.Bytes()
	}
	old = base
	nw = append([]byte{}, base...)
	pos := 0
	for _, r := range s.Runs {
		if !r.Equal {
			for i := pos; i < pos+r.Len; i++ {
				nw[i] ^= 0x55
			}
		}
		pos += r.Len
	}
	if s.OldCut > 0 {
		c := s.OldCut
		if c > len(old) {
			c = len(old)
		}
		old = old[:len(old)-c]
	}
	if s.NewCut > 0 {
		c := s.NewCut
		if c > len(nw) {
			c = len(nw)
		}
		nw = nw[:len(nw)-c]
	}
	if s.Shift > 0 && s.Shift < len(nw) {
		nw = nw[s.Shift:]
	}
	return old, nw
}

// memFile is a byte buffer written at a position, like an *os.File opened without O_TRUNC.
type memFile struct {
	b   []byte
	pos int64
}

func (m *memFile) Write(p []byte) (int, error) {
	end := m.pos + int64(len(p))
	if end > int64(len(m.b)) {
		m.b = append(m.b, make([]byte, end-int64(len(m.b)))...)
	}
	copy(m.b[m.pos:], p)
	m.pos = end
	return len(p), nil
}

type op struct {
	skip  int64
	fresh []byte
}

// decodeOverlay is an independent decoder of the overlay stream.
func decodeOverlay(stream []byte) ([]op, error) {
	src := h.Source(stream)
	if _, err := src.Resume(nil); err != nil {
		return nil, err
	}
	r := wire.NewReadContext(src)
	if err := r.ExpectMagic(overlay.OverlayMagic); err != nil {
		return nil, err
	}
	if err := r.ReadMessage(&overlay.OverlayHeader{}); err != nil {
		return nil, err
	}
	var ops []op
	for {
		m := &overlay.OverlayOp{}
		if err := r.ReadMessage(m); err != nil {
			return nil, errors.WithMessage(err, "overlay stream has no end marker")
		}
		switch m.Type {
		case overlay.OverlayOp_HEY_YOU_DID_IT:
			return ops, nil
		case overlay.OverlayOp_SKIP:
			ops = append(ops, op{skip: m.Len})
		case overlay.OverlayOp_FRESH:
			ops = append(ops, op{fresh: append([]byte{}, m.Data...)})
		default:
			return nil, fmt.Errorf("unknown overlay op type %d", m.Type)
		}
	}
}

func check(s Spec) h.Result {
	old, nw := contents(s)
	cl := []string{"entropy:" + s.Entropy}
	switch {
	case len(nw) < len(old):
		cl = append(cl, "new:shorter")
	case len(nw) > len(old):
		cl = append(cl, "new:longer")
	}
	if len(nw) == 0 {
		cl = append(cl, "new:empty")
	}
	if s.Shift > 0 {
		cl = append(cl, "new:lost-a-prefix")
	}
	mf := &memFile{}
	rd := bytes.NewReader(old)
	ow, err := overlay.NewOverlayWriter(rd, 0, mf, 0)
	if err != nil {
		return h.Failf("NewOverlayWriter: %v", err)
	}
	pos, k := 0, 0
	sessions, flushes := 1, 0
	var actFail *h.Result
	act := func(a int) bool {
		if a >= 2 && sessions >= 24 {
			a = 1 // every session allocates two 128KiB buffers: bound them per case
		}
		if a >= 1 {
			if err := ow.Flush(); err != nil {
				actFail = &h.Result{Fail: fmt.Sprintf("Flush after %d bytes: %v", pos, err), Classes: cl}
				return false
			}
			flushes++
			if ow.ReadOffset() != int64(pos) {
				actFail = &h.Result{Fail: fmt.Sprintf("after a flush ReadOffset()=%d but %d bytes of new content have been consumed", ow.ReadOffset(), pos), Classes: cl}
				return false
			}
		}
		if a >= 2 {
			ro, oo := ow.ReadOffset(), ow.OverlayOffset()
			if oo > int64(len(mf.b)) {
				actFail = &h.Result{Fail: fmt.Sprintf("OverlayOffset()=%d beyond the %d overlay bytes written", oo, len(mf.b)), Classes: cl}
				return false
			}
			if a == 3 {
				mf.b = mf.b[:oo]
			} else {
				mf.b = append(mf.b[:oo], bytes.Repeat([]byte{0xEE}, 37)...)
			}
			mf.pos = oo
			rd = bytes.NewReader(old)
			if _, err := rd.Seek(ro, io.SeekStart); err != nil {
				actFail = &h.Result{Fail: fmt.Sprintf("seek: %v", err)}
				return false
			}
			var err error
			ow, err = overlay.NewOverlayWriter(rd, ro, mf, oo)
			if err != nil {
				actFail = &h.Result{Fail: fmt.Sprintf("NewOverlayWriter(resume at read %d, overlay %d): %v", ro, oo, err), Classes: cl}
				return false
			}
			sessions++
		}
		return true
	}
	for _, a := range s.Pre {
		if !act(a) {
			return *actFail
		}
		if a >= 2 {
			cl = append(cl, "session-break:before-any-data")
		}
	}
	for pos < len(nw) {
		n := 1
		if len(s.Slices) > 0 {
			n = s.Slices[k%len(s.Slices)]
		}
		if n < 1 {
			n = 1
		}
		if pos+n > len(nw) {
			n = len(nw) - pos
		}
		if len(s.Copies) > 0 && s.Copies[k%len(s.Copies)] {
			cn, err := io.Copy(ow, plainReader{bytes.NewReader(nw[pos : pos+n])})
			if err != nil || cn != int64(n) {
				return h.Result{Fail: fmt.Sprintf("io.Copy of %d bytes at %d into the overlay writer: n=%d err=%v", n, pos, cn, err), Classes: cl}
			}
			if k > 0 {
				cl = append(cl, "feed:io.Copy-after-other-writes")
			}
		} else {
			wn, err := ow.Write(nw[pos : pos+n])
			if err != nil || wn != n {
				return h.Result{Fail: fmt.Sprintf("Write of %d bytes at %d: n=%d err=%v", n, pos, wn, err), Classes: cl}
			}
		}
		pos += n
		a := 0
		if len(s.Actions) > 0 {
			a = s.Actions[k%len(s.Actions)]
		}
		k++
		if !act(a) {
			return *actFail
		}
	}
	if err := ow.Finalize(); err != nil {
		return h.Result{Fail: fmt.Sprintf("Finalize: %v", err), Classes: cl}
	}
	stream := mf.b
	// (1) reference replay
	ops, err := decodeOverlay(stream)
	if err != nil {
		return h.Result{Fail: fmt.Sprintf("overlay stream cannot be decoded: %v", err), Classes: cl}
	}
	out := append([]byte{}, old...)
	p := int64(0)
	nskip, nfresh := 0, 0
	for i, o := range ops {
		if o.fresh != nil {
			nfresh++
			end := p + int64(len(o.fresh))
			if end > int64(len(out)) {
				out = append(out, make([]byte, end-int64(len(out)))...)
			}
			copy(out[p:], o.fresh)
			p = end
			continue
		}
		if o.skip < 0 {
			return h.Result{Fail: fmt.Sprintf("op %d: negative skip %d", i, o.skip), Classes: cl}
		}
		if o.skip > 0 {
			nskip++
			end := p + o.skip
			if end > int64(len(old)) || end > int64(len(nw)) || !bytes.Equal(old[p:end], nw[p:end]) {
				return h.Result{Fail: fmt.Sprintf("op %d: SKIP [%d,%d) covers bytes where old and new differ (or beyond one of them: old %d, new %d bytes)", i, p, end, len(old), len(nw)), Classes: cl}
			}
			p = end
		}
	}
	if p > int64(len(out)) {
		out = append(out, make([]byte, p-int64(len(out)))...)
	}
	out = out[:p]
	if !bytes.Equal(out, nw) {
		return h.Result{Fail: fmt.Sprintf("reference replay of the overlay gives %d bytes, new content has %d, first difference at %d", len(out), len(nw), firstDiff(out, nw)), Classes: cl}
	}
	// (2) the real applier onto a copy of old, then truncate at the final position
	d := h.TempDir("c14")
	defer os.RemoveAll(d)
	fp := filepath.Join(d, "f")
	if err := os.WriteFile(fp, old, 0o644); err != nil {
		return h.Result{Skip: "cannot write"}
	}
	f, err := os.OpenFile(fp, os.O_WRONLY, 0)
	if err != nil {
		return h.Result{Skip: "cannot open"}
	}
	src := h.Source(stream)
	if _, err := src.Resume(nil); err != nil {
		f.Close()
		return h.Failf("resume source: %v", err)
	}
	// one applier context for two files in a row, as overlayBowl.applyOverlays uses it
	pctx := &overlay.OverlayPatchContext{}
	perr := pctx.Patch(src, f)
	if perr == nil {
		var fin int64
		fin, perr = f.Seek(0, io.SeekCurrent)
		if perr == nil {
			perr = f.Truncate(fin)
		}
	}
	f.Close()
	if perr != nil {
		return h.Result{Fail: fmt.Sprintf("OverlayPatchContext.Patch failed on a stream the writer produced: %v", perr), Classes: cl}
	}
	got, _ := os.ReadFile(fp)
	if !bytes.Equal(got, nw) {
		return h.Result{Fail: fmt.Sprintf("applying the overlay to the old file gives %d bytes, new content has %d, first difference at %d", len(got), len(nw), firstDiff(got, nw)), Classes: cl}
	}
	fp2 := filepath.Join(d, "g")
	if err := os.WriteFile(fp2, old, 0o644); err != nil {
		return h.Result{Skip: "cannot write"}
	}
	if f2, err := os.OpenFile(fp2, os.O_WRONLY, 0); err == nil {
		src2 := h.Source(stream)
		_, perr = src2.Resume(nil)
		if perr == nil {
			perr = pctx.Patch(src2, f2)
		}
		if perr == nil {
			var fin int64
			fin, perr = f2.Seek(0, io.SeekCurrent)
			if perr == nil {
				perr = f2.Truncate(fin)
			}
		}
		f2.Close()
		if perr != nil {
			return h.Result{Fail: fmt.Sprintf("second use of the same OverlayPatchContext failed: %v", perr), Classes: cl}
		}
		got2, _ := os.ReadFile(fp2)
		if !bytes.Equal(got2, nw) {
			return h.Result{Fail: fmt.Sprintf("second use of the same OverlayPatchContext (another copy of the old file) gives %d bytes, new content has %d, first difference at %d", len(got2), len(nw), firstDiff(got2, nw)), Classes: cl}
		}
	}
	if nskip > 0 {
		cl = append(cl, "op:skip")
	}
	if nfresh > 0 {
		cl = append(cl, "op:fresh")
	}
	if sessions > 1 {
		cl = append(cl, "sessions:>1")
	}
	if flushes > 0 {
		cl = append(cl, "flush:some")
	}
	return h.Result{Classes: cl, NonTrivial: nskip > 0 && nfresh > 0 && (sessions > 1 || flushes > 0)}
}

func firstDiff(a, b []byte) int {
	n := len(a)
	if len(b) < n {
		n = len(b)
	}
	for i := 0; i < n; i++ {
		if a[i] != b[i] {
			return i
		}
	}
	return n
}

const win = 128 * 1024
const thr = 8 * 1024

var prop = h.Prop[Spec]{
	ID: "C14", Name: "overlay",
	Gen: func(t *rapid.T) Spec {
		s := Spec{Entropy: rapid.SampledFrom([]string{"high", "periodic", "periodic", "constant"}).Draw(t, "entropy")}
		if s.Entropy == "periodic" {
			s.Period = rapid.SampledFrom([]int{1, 2, 3, 7, 64, 100, 4096, thr, thr + 1}).Draw(t, "period")
		}
		nr := rapid.IntRange(0, 12).Draw(t, "nruns")
		eq := rapid.Bool().Draw(t, "first-equal")
		total := 0
		for i := 0; i < nr && total < 5*win; i++ {
			var n int
			switch rapid.IntRange(0, 5).Draw(t, "run-kind") {
			case 0, 1:
				n = rapid.IntRange(0, 40).Draw(t, "run-short")
			case 2, 3:
				n = rapid.IntRange(thr-42, thr+58).Draw(t, "run-threshold")
			case 4:
				n = rapid.SampledFrom([]int{win - 1, win, win + 1, win - thr, win - thr - 1}).Draw(t, "run-window")
			default:
				n = rapid.IntRange(0, 140*1024).Draw(t, "run")
			}
			s.Runs = append(s.Runs, Run{Len: n, Equal: eq})
			total += n
			eq = !eq
			if rapid.IntRange(0, 5).Draw(t, "repeat-kind") == 0 {
				eq = !eq
			}
		}
		switch rapid.IntRange(0, 5).Draw(t, "length-relation") {
		case 0:
			s.OldCut = rapid.OneOf(rapid.IntRange(1, 50), rapid.IntRange(1, win+10)).Draw(t, "old-cut")
		case 1:
			s.NewCut = rapid.OneOf(rapid.IntRange(1, 50), rapid.IntRange(1, win+10)).Draw(t, "new-cut")
		case 2:
			if rapid.IntRange(0, 9).Draw(t, "new-empty") == 0 {
				s.NewCut = total
			}
		}
		s.Slices = rapid.SliceOfN(rapid.OneOf(rapid.IntRange(1, 100), rapid.IntRange(1, 300*1024), rapid.SampledFrom([]int{win - 1, win, win + 1, thr})), 1, 6).Draw(t, "slices")
		if total < 3000 && rapid.IntRange(0, 5).Draw(t, "bytewise") == 0 {
			s.Slices = []int{1}
		}
		s.Actions = rapid.SliceOfN(rapid.SampledFrom([]int{0, 0, 1, 2, 3}), 1, 6).Draw(t, "actions")
		if rapid.IntRange(0, 3).Draw(t, "pre-actions") == 0 {
			s.Pre = rapid.SliceOfN(rapid.SampledFrom([]int{1, 2, 3}), 1, 3).Draw(t, "pre")
		}
		if rapid.IntRange(0, 2).Draw(t, "some-writes-by-io.Copy") == 0 {
			s.Copies = rapid.SliceOfN(rapid.Bool(), 1, 5).Draw(t, "copies")
		}
		if rapid.IntRange(0, 4).Draw(t, "new-lost-a-prefix") == 0 {
			s.Shift = rapid.OneOf(rapid.SampledFrom([]int{win, win, 2 * win, thr, 1}), rapid.IntRange(1, 3*win)).Draw(t, "shift")
		}
		if rapid.IntRange(0, 3).Draw(t, "first-attempt-given-up") == 0 {
			s.Abandon = rapid.OneOf(rapid.IntRange(1, 300*1024), rapid.SampledFrom([]int{win, win + 1, 160 * 1024, 2 * win})).Draw(t, "abandon")
		}
		if rapid.IntRange(0, 3).Draw(t, "old-grown-on-disk") == 0 {
			s.Grown = rapid.OneOf(rapid.IntRange(1, 100), rapid.IntRange(1, 200*1024)).Draw(t, "grown")
		}
		return s
	},
	Check: check,
}

func TestProp(t *testing.T) { h.Run(t, prop) }

// ---------------------------------------------------------------------------
// The same write patterns driven through the overlay writer's real caller, the
// overlay bowl: GetWriter + EntryWriter.Resume/Save/Write/Finalize, new
// sessions from a gob copy of the writer checkpoint in a brand-new bowl, then
// Commit (applyOverlays + truncate). Here the bowl - not the harness -
// positions the old-file reader and the staged overlay file on resume.
//
// Actions: 0 nothing, 1 Save, 2 Save + the session goes on for one more write
// (and, on odd steps, one more Save) before it dies, 3 Save + the session dies
// at once; after 2 and 3 a new bowl resumes from the saved checkpoint.

func containers(oldLen, newLen int) (*tlc.Container, *tlc.Container) {
	mk := func(n int) *tlc.Container {
		return &tlc.Container{Files: []*tlc.File{{Path: "f", Mode: 0o644, Size: int64(n), Offset: 0}, {Path: "e", Mode: 0o644, Size: int64(n), Offset: int64(n)}}, Size: 2 * int64(n)}
	}
	return mk(oldLen), mk(newLen)
}

func fail0(cl []string, f string, a ...interface{}) h.Result {
	return h.Result{Fail: fmt.Sprintf(f, a...), Classes: cl}
}

func checkBowl(s Spec) h.Result {
	old, nw := contents(s)
	cl := []string{"entropy:" + s.Entropy}
	d := h.TempDir("c14b")
	defer os.RemoveAll(d)
	out, stage := filepath.Join(d, "out"), filepath.Join(d, "stage")
	if err := os.MkdirAll(out, 0o755); err != nil {
		return h.Result{Skip: "mkdir"}
	}
	if err := os.WriteFile(filepath.Join(out, "f"), old, 0o644); err != nil {
		return h.Result{Skip: "cannot write"}
	}
	// a second overlaid file of the same commit ("e", applied before "f" by the one applier context of Commit)
	if err := os.WriteFile(filepath.Join(out, "e"), old, 0o644); err != nil {
		return h.Result{Skip: "cannot write"}
	}
	recOld := len(old)
	if s.Grown > 0 && s.Grown <= len(old) {
		recOld = len(old) - s.Grown
		cl = append(cl, "old:longer-on-disk-than-its-container-says")
	}
	tc, sc := containers(recOld, len(nw))
	newBowl := func() (bowl.Bowl, error) {
		return bowl.NewOverlayBowl(bowl.OverlayBowlParams{TargetContainer: tc, SourceContainer: sc, OutputFolder: out, StageFolder: stage, Consumer: h.Quiet()})
	}
	b, err := newBowl()
	if err != nil {
		return h.Failf("NewOverlayBowl: %v", err)
	}
	// file #1 ("e") is written in one go first; its overlay is the first one Commit applies
	{
		we, err := b.GetWriter(1)
		if err != nil {
			return h.Failf("GetWriter(1): %v", err)
		}
		if _, err := we.Resume(nil); err != nil {
			return h.Failf("EntryWriter.Resume(nil): %v", err)
		}
		if _, err := we.Write(nw); err != nil {
			return h.Failf("Write: %v", err)
		}
		if err := we.Finalize(); err != nil {
			return h.Failf("Finalize: %v", err)
		}
		if err := we.Close(); err != nil {
			return h.Failf("Close: %v", err)
		}
	}
	if s.Abandon > 0 {
		wa, err := b.GetWriter(0)
		if err != nil {
			return h.Failf("GetWriter: %v", err)
		}
		if _, err := wa.Resume(nil); err != nil {
			return h.Failf("EntryWriter.Resume(nil): %v", err)
		}
		n := s.Abandon
		if n > len(nw) {
			n = len(nw)
		}
		for p := 0; p < n; p += 32 * 1024 {
			e := p + 32*1024
			if e > n {
				e = n
			}
			if _, err := wa.Write(nw[p:e]); err != nil {
				return fail0(cl, "Write (attempt that is given up): %v", err)
			}
		}
		if err := wa.Close(); err != nil {
			return fail0(cl, "Close of a writer that is given up: %v", err)
		}
		cl = append(cl, "bowl:first-attempt-given-up-then-started-over-on-the-same-bowl")
	}
	w, err := b.GetWriter(0)
	if err != nil {
		return h.Failf("GetWriter: %v", err)
	}
	if _, err := w.Resume(nil); err != nil {
		return h.Failf("EntryWriter.Resume(nil): %v", err)
	}
	pos, k, sessions, saves := 0, 0, 1, 0
	slice := func() int {
		n := 1
		if len(s.Slices) > 0 {
			n = s.Slices[k%len(s.Slices)]
		}
		if n < 1 {
			n = 1
		}
		if pos+n > len(nw) {
			n = len(nw) - pos
		}
		return n
	}
	fail := func(f string, a ...interface{}) h.Result {
		return h.Result{Fail: fmt.Sprintf(f, a...), Classes: cl}
	}
	act := func(a int) *h.Result {
		if a >= 2 && sessions >= 24 {
			a = 1
		}
		if a == 0 {
			return nil
		}
		ck, err := w.Save()
		if err != nil {
			r := fail("EntryWriter.Save after %d bytes: %v", pos, err)
			return &r
		}
		saves++
		if ck.Offset != int64(pos) || w.Tell() != int64(pos) {
			r := fail("after Save: checkpoint offset %d, Tell() %d, but %d bytes of new content were written", ck.Offset, w.Tell(), pos)
			return &r
		}
		if a == 1 {
			return nil
		}
		bck, err := b.Save()
		if err != nil {
			r := fail("Bowl.Save: %v", err)
			return &r
		}
		buf := new(bytes.Buffer)
		encode := func() *h.Result {
			if err := gob.NewEncoder(buf).Encode(struct {
				W *bowl.WriterCheckpoint
				B *bowl.BowlCheckpoint
			}{ck, bck}); err != nil {
				r := fail("checkpoint cannot be gob-encoded: %v", err)
				return &r
			}
			return nil
		}
		// the checkpoint object is held in memory and serialized either at once or (odd steps) only after the
		// session has gone on - later Saves of the same writer must not change a checkpoint handed out before
		late := a == 2 && k%2 == 1
		if !late {
			if r := encode(); r != nil {
				return r
			}
		}
		if a == 2 {
			// the dying session goes on: one more write, maybe one more save
			if n := slice(); n > 0 {
				if _, err := w.Write(nw[pos : pos+n]); err != nil {
					r := fail("Write of %d bytes at %d: %v", n, pos, err)
					return &r
				}
				if k%2 == 1 {
					if _, err := w.Save(); err != nil {
						r := fail("EntryWriter.Save: %v", err)
						return &r
					}
				}
				cl = append(cl, "bowl:session-wrote-after-the-checkpoint-it-is-resumed-from")
			}
		}
		if late {
			if r := encode(); r != nil {
				return r
			}
			cl = append(cl, "checkpoint:serialized-after-a-later-Save")
		}
		w.Close()
		b.Close()
		var c2 struct {
			W *bowl.WriterCheckpoint
			B *bowl.BowlCheckpoint
		}
		if err := gob.NewDecoder(buf).Decode(&c2); err != nil {
			r := fail("checkpoint does not survive gob: %v", err)
			return &r
		}
		if b, err = newBowl(); err != nil {
			r := fail("NewOverlayBowl (new session): %v", err)
			return &r
		}
		if err := b.Resume(c2.B); err != nil {
			r := fail("Bowl.Resume: %v", err)
			return &r
		}
		if w, err = b.GetWriter(0); err != nil {
			r := fail("GetWriter (new session): %v", err)
			return &r
		}
		off, err := w.Resume(c2.W)
		if err != nil {
			r := fail("EntryWriter.Resume from the checkpoint saved at %d: %v", pos, err)
			return &r
		}
		if off != int64(pos) {
			r := fail("EntryWriter.Resume returned offset %d, the checkpoint was saved at %d", off, pos)
			return &r
		}
		sessions++
		return nil
	}
	for _, a := range s.Pre {
		if r := act(a); r != nil {
			return *r
		}
	}
	for pos < len(nw) {
		n := slice()
		wn, err := w.Write(nw[pos : pos+n])
		if err != nil || wn != n {
			return fail("Write of %d bytes at %d: n=%d err=%v", n, pos, wn, err)
		}
		pos += n
		a := 0
		if len(s.Actions) > 0 {
			a = s.Actions[k%len(s.Actions)]
		}
		k++
		if r := act(a); r != nil {
			return *r
		}
	}
	if err := w.Finalize(); err != nil {
		return fail("Finalize: %v", err)
	}
	if err := w.Close(); err != nil {
		return fail("Close: %v", err)
	}
	if err := b.Commit(); err != nil {
		return fail("Commit: %v", err)
	}
	b.Close()
	got, err := os.ReadFile(filepath.Join(out, "f"))
	if err != nil {
		return fail("reading the committed file: %v", err)
	}
	if !bytes.Equal(got, nw) {
		return fail("after Commit the file has %d bytes, new content has %d, first difference at %d (%d sessions, %d saves)", len(got), len(nw), firstDiff(got, nw), sessions, saves)
	}
	gotE, err := os.ReadFile(filepath.Join(out, "e"))
	if err != nil {
		return fail("reading the second committed file: %v", err)
	}
	if !bytes.Equal(gotE, nw) {
		return fail("after Commit the other overlaid file of the same commit has %d bytes, new content has %d, first difference at %d", len(gotE), len(nw), firstDiff(gotE, nw))
	}
	if sessions > 1 {
		cl = append(cl, "sessions:>1")
	}
	if saves > 0 {
		cl = append(cl, "flush:some")
	}
	nt := false
	for _, c := range cl {
		if c == "bowl:session-wrote-after-the-checkpoint-it-is-resumed-from" {
			nt = true
		}
	}
	return h.Result{Classes: cl, NonTrivial: nt}
}

var propBowl = h.Prop[Spec]{ID: "C14", Name: "viabowl", Gen: prop.Gen, Check: checkBowl}

func TestViaBowl(t *testing.T) { h.Run(t, propBowl) }

func TestReplay(t *testing.T) {
	h.ReplayMain(t, map[string]h.Replayer{"overlay": h.ReplayerOf(prop), "viabowl": h.ReplayerOf(propBowl)})
}
