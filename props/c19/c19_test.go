// C19 Archive then extract gives the same tree for any concurrency and resume point.
package c19

import (
	"bytes"
	"encoding/json"
	"fmt"
	"io"
	"os"
	"os/exec"
	"path/filepath"
	"runtime"
	"sync"
	"testing"
	"time"

	"verif/harness/h"

	"github.com/itchio/arkive/zip"
	"github.com/itchio/lake/pools/fspool"
	"github.com/itchio/wharf/archiver"
	"github.com/itchio/wharf/archiver/containerarchiver"
	"pgregory.net/rapid"
)

// Gate delays the reads of one entry's data until Need other entries have
// completed: out-of-order completion is constructed at the I/O boundary.
type Gate struct {
	Entry int `json:"entry"` // index among the zip's non-directory entries (mod count)
	Need  int `json:"need"`
}

type Spec struct {
	Tree     h.Tree `json:"tree,omitempty"`
	Many     int    `json:"many,omitempty"` // >0: Many small files (+ one large) instead of Tree
	Large    int    `json:"large,omitempty"`
	Format   string `json:"format"` // zip | tar
	Workers  int    `json:"workers"`
	Gate     *Gate  `json:"gate,omitempty"`
	Crash    bool   `json:"crash,omitempty"`    // enumerate crash points in a child process
	Workers2 int    `json:"workers2,omitempty"` // worker count of the restarted extraction
	Procs    int    `json:"procs,omitempty"`    // >0: GOMAXPROCS during the case
	// ViaContainer: the zip is written by containerarchiver.CompressZip from the walked container and
	// a file-system pool (deflate-compressed entries) instead of archiver.CompressZip (stored entries)
	ViaContainer bool `json:"via_container,omitempty"`
	// Spell > 0: the source directory is passed to the archiver under another spelling of the same path
	// (trailing slash, doubled slash, "/./", "/x/../")
	Spell int `json:"spell,omitempty"`
	// Resume > 0 (plain zip round trip): the extraction is resumable, and its resume file is 1 absent, 2 empty
	// (an interruption inside the write of the progress number, a full disk), 3 zero bytes, 4 not a number,
	// 5 white space: in every case nothing has been extracted yet and the whole tree is owed
	Resume int `json:"resume,omitempty"`
}

func specTree(s Spec) h.Tree {
	if s.Many == 0 {
		return s.Tree
	}
	var tr h.Tree
	tr = append(tr, h.Entry{Path: "sub", Kind: h.KDir})
	for i := 0; i < s.Many; i++ {
		p := fmt.Sprintf("f%03d", i)
		if i%5 == 0 {
			p = "sub/" + p
		}
		tr = append(tr, h.Entry{Path: p, Kind: h.KFile, C: h.Content{{Src: 1 + i%6, Off: i * 100, Len: 40 + i%60}}})
	}
	if s.Large > 0 {
		tr = append(tr, h.Entry{Path: "f000big", Kind: h.KFile, C: h.Content{{Src: 9, Len: s.Large}}})
	}
	return tr
}

type gatedReaderAt struct {
	r      io.ReaderAt
	lo, hi int64
	need   int
	mu     sync.Mutex
	done   int
	waited bool
	opened bool
}

func (g *gatedReaderAt) ReadAt(p []byte, off int64) (int, error) {
	// only the read that starts exactly at the gated entry's data is that
	// entry's first read: reads for neighbouring small entries may span the
	// range, and every zip.NewReader scans the tail of the archive
	if g.hi > g.lo && off == g.lo {
		deadline := time.Now().Add(2 * time.Second)
		for {
			g.mu.Lock()
			ok := g.done >= g.need
			g.waited = true
			if ok {
				g.opened = true
			}
			g.mu.Unlock()
			if ok || time.Now().After(deadline) {
				break
			}
			time.Sleep(200 * time.Microsecond)
		}
	}
	return g.r.ReadAt(p, off)
}

func (g *gatedReaderAt) completed() int {
	g.mu.Lock()
	defer g.mu.Unlock()
	g.done++
	return g.done
}

func newGate(zipb []byte, gate *Gate) (*gatedReaderAt, error) {
	g := &gatedReaderAt{r: bytes.NewReader(zipb)}
	if gate == nil {
		return g, nil
	}
	zr, err := zip.NewReader(bytes.NewReader(zipb), int64(len(zipb)))
	if err != nil {
		return nil, err
	}
	var files []*zip.File
	for _, f := range zr.File {
		if !f.FileInfo().IsDir() && f.CompressedSize64 > 0 {
			files = append(files, f)
		}
	}
	if len(files) < 2 {
		return g, nil
	}
	f := files[gate.Entry%len(files)]
	off, err := f.DataOffset()
	if err != nil {
		return nil, err
	}
	g.lo, g.hi = off, off+int64(f.CompressedSize64)
	g.need = gate.Need
	if g.need > len(files)-1 {
		g.need = len(files) - 1
	}
	return g, nil
}

func counts(tr h.Tree) (dirs, files, links int) {
	for _, e := range tr {
		switch e.Kind {
		case h.KDir:
			dirs++
		case h.KFile:
			files++
		case h.KLink:
			links++
		}
	}
	return
}

type childJob struct {
	Zip, Out, Resume string
	Workers          int
	Gate             *Gate
	CrashAt          int
}

// TestChild is the body of the crashing child process.
func TestChild(t *testing.T) {
	jp := os.Getenv("VERIF_C19_CHILD")
	if jp == "" {
		t.Skip()
	}
	b, err := os.ReadFile(jp)
	if err != nil {
		os.Exit(5)
	}
	var job childJob
	if json.Unmarshal(b, &job) != nil {
		os.Exit(5)
	}
	zipb, err := os.ReadFile(job.Zip)
	if err != nil {
		os.Exit(5)
	}
	g, err := newGate(zipb, job.Gate)
	if err != nil {
		os.Exit(5)
	}
	_, err = archiver.ExtractZip(g, int64(len(zipb)), job.Out, archiver.ExtractSettings{
		Consumer: h.Quiet(), Concurrency: job.Workers, ResumeFrom: job.Resume,
		OnEntryDone: func(string) {
			if g.completed() == job.CrashAt {
				os.Exit(3) // the crash
			}
		},
	})
	if err != nil {
		os.Exit(4)
	}
	os.Exit(0)
}

func check(s Spec) h.Result {
	tree := specTree(s)
	d := h.TempDir("c19")
	defer os.RemoveAll(d)
	src, out := filepath.Join(d, "src"), filepath.Join(d, "out")
	if err := tree.Write(src); err != nil {
		return h.Result{Skip: "cannot write tree"}
	}
	os.MkdirAll(out, 0o755) // "extracting into an empty directory"
	if s.Spell > 0 {
		base, name := filepath.Dir(src), filepath.Base(src)
		switch s.Spell % 4 {
		case 0:
			src = src + "/"
		case 1:
			src = base + "//" + name
		case 2:
			src = base + "/./" + name
		case 3:
			os.MkdirAll(filepath.Join(base, "x"), 0o755)
			src = base + "/x/../" + name
		}
	}
	nd, nf, nl := counts(tree)
	cl := []string{"format:" + s.Format, fmt.Sprintf("workers:%d", s.Workers)}
	if s.Spell > 0 {
		cl = append(cl, "source-dir:not-in-clean-form")
	}
	if s.Procs > 0 {
		defer runtime.GOMAXPROCS(runtime.GOMAXPROCS(s.Procs))
		cl = append(cl, fmt.Sprintf("gomaxprocs:%d", s.Procs))
	}
	if runtime.NumCPU() == 1 {
		cl = append(cl, "env:one-usable-cpu")
	}
	if s.Many > 0 {
		cl = append(cl, "tree:many-small-files")
	}
	if s.Large > 0 {
		cl = append(cl, "tree:one-large-among-small")
	}
	if s.Format == "tar" {
		ap := filepath.Join(d, "a.tar")
		fw, err := os.Create(ap)
		if err != nil {
			return h.Result{Skip: "cannot create archive"}
		}
		_, err = archiver.CompressTar(fw, src, h.Quiet())
		fw.Close()
		if err != nil {
			return h.Result{Fail: fmt.Sprintf("CompressTar: %v", err), Classes: cl}
		}
		res, err := archiver.ExtractTar(ap, out, archiver.ExtractSettings{Consumer: h.Quiet()})
		if err != nil {
			return h.Result{Fail: fmt.Sprintf("ExtractTar: %v", err), Classes: cl}
		}
		if m := h.CheckDir(out, tree, false); m != "" {
			return h.Result{Fail: "tar round trip differs from the source tree: " + m, Classes: cl}
		}
		if res.Dirs != nd || res.Files != nf || res.Symlinks != nl {
			return h.Result{Fail: fmt.Sprintf("ExtractTar reports %d dirs, %d files, %d symlinks; the tree has %d, %d, %d", res.Dirs, res.Files, res.Symlinks, nd, nf, nl), Classes: cl}
		}
		return h.Result{Classes: cl, NonTrivial: nd > 0 && nf > 1}
	}
	zb := new(bytes.Buffer)
	if s.ViaContainer {
		cl = append(cl, "zip:containerarchiver-deflate")
		c, err := h.Walk(src)
		if err != nil {
			return h.Result{Skip: "cannot walk the source tree: " + err.Error()}
		}
		pool := fspool.New(c, src)
		_, err = containerarchiver.CompressZip(zb, c, pool, h.Quiet())
		pool.Close()
		if err != nil {
			return h.Result{Fail: fmt.Sprintf("containerarchiver.CompressZip: %v", err), Classes: cl}
		}
	} else if _, err := archiver.CompressZip(zb, src, h.Quiet()); err != nil {
		return h.Result{Fail: fmt.Sprintf("CompressZip: %v", err), Classes: cl}
	}
	zipb := zb.Bytes()
	if !s.Crash {
		g, err := newGate(zipb, s.Gate)
		if err != nil {
			return h.Failf("harness cannot read the archive it just wrote: %v", err)
		}
		resumeFrom := ""
		if s.Resume > 0 {
			resumeFrom = filepath.Join(d, "resume-file")
			if s.Resume > 1 {
				os.WriteFile(resumeFrom, [][]byte{nil, {0, 0, 0, 0}, []byte("3x"), []byte(" \n")}[s.Resume-2], 0o644)
				cl = append(cl, "resume-file:present-but-holds-no-number")
			}
		}
		res, err := archiver.ExtractZip(g, int64(len(zipb)), out, archiver.ExtractSettings{
			Consumer: h.Quiet(), Concurrency: s.Workers, ResumeFrom: resumeFrom,
			OnEntryDone: func(string) { g.completed() },
		})
		if err != nil {
			return h.Result{Fail: fmt.Sprintf("ExtractZip with %d workers: %v", s.Workers, err), Classes: cl}
		}
		if m := h.CheckDir(out, tree, false); m != "" {
			return h.Result{Fail: fmt.Sprintf("zip round trip with %d workers differs from the source tree: %s", s.Workers, m), Classes: cl}
		}
		if res.Dirs != nd || res.Files != nf || res.Symlinks != nl {
			return h.Result{Fail: fmt.Sprintf("ExtractZip with %d workers reports %d dirs, %d files, %d symlinks; the tree has %d, %d, %d", s.Workers, res.Dirs, res.Files, res.Symlinks, nd, nf, nl), Classes: cl}
		}
		nt := false
		if g.opened && g.need > 0 {
			cl = append(cl, "schedule:constructed-out-of-order-completion")
			nt = true
		}
		return h.Result{Classes: cl, NonTrivial: nt}
	}
	// crash points: every completion j, in a child process
	zp := filepath.Join(d, "a.zip")
	if err := os.WriteFile(zp, zipb, 0o644); err != nil {
		return h.Result{Skip: "cannot write archive"}
	}
	total := nf + nl
	var js []int
	for j := 1; j <= total; j++ {
		js = append(js, j)
	}
	if len(js) > 10 { // cap child processes per case: first 4, last 2, 4 spread
		keep := map[int]bool{1: true, 2: true, 3: true, 4: true, total: true, total - 1: true}
		for k := 1; k <= 4; k++ {
			keep[k*total/5] = true
		}
		js = js[:0]
		for j := 1; j <= total; j++ {
			if keep[j] {
				js = append(js, j)
			}
		}
	}
	sub := 0
	nt := false
	w2 := s.Workers2
	if w2 == 0 {
		w2 = s.Workers
	}
	for _, j := range js {
		os.RemoveAll(out)
		os.MkdirAll(out, 0o755)
		resume := filepath.Join(d, "resume")
		os.Remove(resume)
		job := childJob{Zip: zp, Out: out, Resume: resume, Workers: s.Workers, Gate: s.Gate, CrashAt: j}
		jb, _ := json.Marshal(job)
		jp := filepath.Join(d, "job.json")
		os.WriteFile(jp, jb, 0o644)
		cmd := exec.Command(os.Args[0], "-test.run=^TestChild$")
		cmd.Env = append(os.Environ(), "VERIF_C19_CHILD="+jp)
		err := cmd.Run()
		code := 0
		if ee, ok := err.(*exec.ExitError); ok {
			code = ee.ExitCode()
		} else if err != nil {
			return h.Result{Skip: "cannot start child: " + err.Error()}
		}
		if code != 3 && code != 0 {
			return h.Result{Fail: fmt.Sprintf("child extraction (crash at completion %d of %d, %d workers) ended with status %d", j, total, s.Workers, code), Classes: cl}
		}
		rb, _ := os.ReadFile(resume)
		// restart with the same resume file
		res, err := archiver.ExtractZip(bytes.NewReader(zipb), int64(len(zipb)), out, archiver.ExtractSettings{Consumer: h.Quiet(), Concurrency: w2, ResumeFrom: resume})
		if err != nil {
			return h.Result{Fail: fmt.Sprintf("restarted extraction (after a crash at completion %d of %d, %d workers, resume file %q) failed: %v", j, total, s.Workers, rb, err), Classes: cl}
		}
		_ = res
		if m := h.CheckDir(out, tree, false); m != "" {
			return h.Result{Fail: fmt.Sprintf("after a crash at completion %d of %d (%d workers, resume file %q) and a restart, the tree is not complete: %s", j, total, s.Workers, rb, m), Classes: cl}
		}
		sub++
		if code == 3 && s.Workers >= 2 && s.Gate != nil && j <= s.Gate.Need {
			nt = true
			cl = append(cl, "crash:with-in-flight-lower-index-entry")
		}
	}
	cl = append(cl, "crash:enumerated")
	return h.Result{Classes: cl, NonTrivial: nt, Sub: sub}
}

func genTree(t *rapid.T) h.Tree {
	tr := h.GenOldTree(t, h.GenOpts{MaxOld: 8})
	return tr
}

func genWorkers(t *rapid.T) int {
	return rapid.OneOf(rapid.IntRange(1, 16), rapid.SampledFrom([]int{-1, -1, 0, 1, 2, 3, 8})).Draw(t, "workers")
}

var prop = h.Prop[Spec]{
	ID: "C19", Name: "roundtrip",
	Gen: func(t *rapid.T) Spec {
		s := Spec{Format: rapid.SampledFrom([]string{"zip", "zip", "zip", "tar"}).Draw(t, "format")}
		switch rapid.IntRange(0, 5).Draw(t, "tree-kind") {
		case 0:
			s.Many = rapid.SampledFrom([]int{12, 40, 300}).Draw(t, "many")
		case 1:
			s.Many = rapid.SampledFrom([]int{12, 40}).Draw(t, "many")
			s.Large = rapid.SampledFrom([]int{300000, 3 << 20}).Draw(t, "large")
		default:
			s.Tree = genTree(t)
		}
		s.Workers = genWorkers(t)
		if s.Format == "zip" {
			s.ViaContainer = rapid.IntRange(0, 2).Draw(t, "via-container") == 0
		}
		if rapid.IntRange(0, 3).Draw(t, "respelled-source-dir") == 0 {
			s.Spell = rapid.IntRange(1, 4).Draw(t, "spell")
		}
		if s.Format == "zip" && !s.Crash && rapid.IntRange(0, 3).Draw(t, "resumable") == 0 {
			s.Resume = rapid.IntRange(1, 5).Draw(t, "resume-file")
		}
		if s.Format == "zip" && s.Workers >= 2 && rapid.Bool().Draw(t, "gate") {
			s.Gate = &Gate{Entry: rapid.IntRange(0, 50).Draw(t, "gate-entry"), Need: rapid.IntRange(1, 8).Draw(t, "gate-need")}
		}
		if s.Gate == nil && rapid.IntRange(0, 3).Draw(t, "set-gomaxprocs") == 0 {
			// the gate needs real parallelism to let other entries complete; without it, vary the CPUs in use
			s.Procs = rapid.SampledFrom([]int{1, 1, 2, 3}).Draw(t, "gomaxprocs")
		}
		return s
	},
	Check: check,
}

// the same cases in a process that may use one CPU only (the driver starts this stage under taskset):
// "all cores but one" (-1) is then zero and must still mean one worker
var propOneCPU = h.Prop[Spec]{
	ID: "C19", Name: "onecpu",
	Gen: func(t *rapid.T) Spec {
		s := Spec{Format: "zip"}
		if rapid.Bool().Draw(t, "many") {
			s.Many = rapid.SampledFrom([]int{12, 40}).Draw(t, "many-files")
		} else {
			s.Tree = genTree(t)
		}
		s.Workers = rapid.SampledFrom([]int{-1, -1, 0, 1, 2, 4, 16}).Draw(t, "workers")
		return s
	},
	Check: check,
}

func TestOneCPU(t *testing.T) { h.Run(t, propOneCPU) }

var propCrash = h.Prop[Spec]{
	ID: "C19", Name: "crash",
	Gen: func(t *rapid.T) Spec {
		s := Spec{Format: "zip", Crash: true}
		switch rapid.IntRange(0, 3).Draw(t, "tree-kind") {
		case 0:
			s.Many = rapid.SampledFrom([]int{6, 12, 40}).Draw(t, "many")
		case 1:
			s.Many = rapid.SampledFrom([]int{6, 12}).Draw(t, "many")
			s.Large = rapid.SampledFrom([]int{300000, 3 << 20}).Draw(t, "large")
		default:
			s.Tree = genTree(t)
		}
		s.Workers = rapid.SampledFrom([]int{1, 2, 2, 3, 4, 8}).Draw(t, "workers")
		s.ViaContainer = rapid.IntRange(0, 3).Draw(t, "via-container") == 0
		s.Workers2 = rapid.SampledFrom([]int{0, 1, 4}).Draw(t, "workers-restart")
		if s.Workers >= 2 && rapid.IntRange(0, 3).Draw(t, "gate") > 0 {
			s.Gate = &Gate{Entry: rapid.IntRange(0, 6).Draw(t, "gate-entry"), Need: rapid.IntRange(1, 5).Draw(t, "gate-need")}
		}
		return s
	},
	Check:    check,
	Watchdog: 120 * time.Second,
}

func TestProp(t *testing.T)  { h.Run(t, prop) }
func TestCrash(t *testing.T) { h.Run(t, propCrash) }

func TestReplay(t *testing.T) {
	h.ReplayMain(t, map[string]h.Replayer{"roundtrip": h.ReplayerOf(prop), "crash": h.ReplayerOf(propCrash), "race": h.ReplayerOf(prop), "onecpu": h.ReplayerOf(propOneCPU)})
}
