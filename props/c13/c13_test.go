// C13 Messages survive any compression setting; reader checkpoints resume exactly.
package c13

import (
	"bytes"
	"encoding/gob"
	"fmt"
	"io"
	"testing"

	"verif/harness/h"

	"github.com/golang/protobuf/proto"
	"github.com/itchio/savior"
	"github.com/itchio/wharf/bsdiff"
	"github.com/itchio/wharf/pwr"
	"github.com/itchio/wharf/wire"
	"github.com/pkg/errors"
	"pgregory.net/rapid"
)

// Msg is one message of the sequence.
type Msg struct {
	Kind string `json:"kind"` // data | range | header | control | hash | end
	Size int    `json:"size,omitempty"`
	Comp bool   `json:"compressible,omitempty"`
	Off  int    `json:"off,omitempty"`
	A    int64  `json:"a,omitempty"`
	B    int64  `json:"b,omitempty"`
}

type Spec struct {
	Comp  h.Comp `json:"comp"`
	Msgs  []Msg  `json:"msgs"`
	Saves []bool `json:"saves"`           // WantSave before reading message i (cyclic)
	Reuse bool   `json:"reuse,omitempty"` // read into one reused object per message type, as the patcher does
	// Pops, when not empty, says before which messages (cyclic) the caller
	// looks for a checkpoint; empty = before every message. The patcher pops
	// only at certain points, so messages are read between the moment the
	// source checkpoint arrives and the pop.
	Pops []bool `json:"pops,omitempty"`
	// Rewind > 0: after reading Rewind messages the reader is rewound with Resume(nil) and reads the
	// sequence again from message 0 (saves and pops go on); checkpoints popped before and after stay valid.
	Rewind int `json:"rewind,omitempty"`
	// Warm > 0: the reader a checkpoint is handed to is not brand-new but has already read Warm messages
	// (the patcher's reader has read both containers before it is resumed from a checkpoint).
	Warm int `json:"warm,omitempty"`
	// Twin: after the main stream (whose writer is then closed a second time, as a deferred Close after an
	// explicit one does), two more streams with the same compression setting are written at the same time -
	// interleaved, like the patch and signature wires of WritePatch - the second one with the messages in
	// reverse order; each must read back as its own sequence.
	Twin bool `json:"twin,omitempty"`
	// Hold: popped checkpoints are kept as objects and serialized only after the whole stream has been read
	// (later saves of the same reader must not change a checkpoint handed out before)
	Hold bool `json:"hold,omitempty"`
	// Pre > 0: the stream does not start at byte 0 of its source: Pre other bytes come first, and the reader
	// is built on the source positioned behind them (a stream stored behind something else in one file)
	Pre int `json:"pre,omitempty"`
}

// writeStream frames msgs under comp; the returned closer closes the compressed context
func openStream(comp h.Comp) (*bytes.Buffer, *wire.WriteContext, error) {
	buf := new(bytes.Buffer)
	raw := wire.NewWriteContext(buf)
	if err := raw.WriteMagic(pwr.PatchMagic); err != nil {
		return nil, nil, err
	}
	if err := raw.WriteMessage(&pwr.PatchHeader{Compression: comp.Settings()}); err != nil {
		return nil, nil, err
	}
	cw, err := pwr.CompressWire(raw, comp.Settings())
	return buf, cw, err
}

func readAll(stream []byte, like []Msg, order func(i int) int) ([]proto.Message, error) {
	src := h.Source(stream)
	if _, err := src.Resume(nil); err != nil {
		return nil, err
	}
	rr := wire.NewReadContext(src)
	if err := rr.ExpectMagic(pwr.PatchMagic); err != nil {
		return nil, err
	}
	hd := &pwr.PatchHeader{}
	if err := rr.ReadMessage(hd); err != nil {
		return nil, err
	}
	r, err := pwr.DecompressWire(rr, hd.Compression)
	if err != nil {
		return nil, err
	}
	var out []proto.Message
	for i := range like {
		m := empty(like[order(i)])
		if err := r.ReadMessage(m); err != nil {
			return out, fmt.Errorf("message %d: %w", i, err)
		}
		out = append(out, m)
	}
	if err := r.ReadMessage(&pwr.SyncOp{}); errors.Cause(err) != io.EOF {
		return out, fmt.Errorf("after the last message: %v instead of io.EOF", err)
	}
	return out, nil
}

func body(m Msg, i int) []byte {
	if m.Size == 0 {
		return nil
	}
	if m.Comp {
		return bytes.Repeat([]byte{byte(i), byte(i >> 3)}, m.Size/2+1)[:m.Size]
	}
	return h.Content{{Src: 3, Off: m.Off, Len: m.Size}}.Bytes()
}

func build(m Msg, i int) proto.Message {
	switch m.Kind {
	case "data":
		return &pwr.SyncOp{Type: pwr.SyncOp_DATA, Data: body(m, i)}
	case "range0":
		return &pwr.SyncOp{} // 0 bytes on the wire
	case "range":
		return &pwr.SyncOp{Type: pwr.SyncOp_BLOCK_RANGE, FileIndex: m.A, BlockIndex: m.B, BlockSpan: m.A + 1}
	case "header":
		return &pwr.SyncHeader{FileIndex: m.A, Type: pwr.SyncHeader_Type(m.B % 2)}
	case "control":
		b := body(m, i)
		return &bsdiff.Control{Add: b[:len(b)/2], Copy: b[len(b)/2:], Seek: m.A - m.B}
	case "hash":
		return &pwr.BlockHash{WeakHash: uint32(m.A), StrongHash: body(Msg{Size: 16, Off: int(m.B % 1000)}, i)}
	default:
		return &pwr.SyncOp{Type: pwr.SyncOp_HEY_YOU_DID_IT}
	}
}

func empty(m Msg) proto.Message {
	switch m.Kind {
	case "header":
		return &pwr.SyncHeader{}
	case "control":
		return &bsdiff.Control{}
	case "hash":
		return &pwr.BlockHash{}
	default:
		return &pwr.SyncOp{}
	}
}

func check(s Spec) h.Result {
	buf := new(bytes.Buffer)
	raw := wire.NewWriteContext(buf)
	if err := raw.WriteMagic(pwr.PatchMagic); err != nil {
		return h.Failf("WriteMagic: %v", err)
	}
	if err := raw.WriteMessage(&pwr.PatchHeader{Compression: s.Comp.Settings()}); err != nil {
		return h.Failf("write header: %v", err)
	}
	cw, err := pwr.CompressWire(raw, s.Comp.Settings())
	if err != nil {
		return h.Result{Skip: "compressor rejects the setting"}
	}
	var sent []proto.Message
	total := 0
	cl := []string{"comp:" + []string{"none", "brotli", "gzip"}[s.Comp.Algo]}
	for i, m := range s.Msgs {
		pm := build(m, i)
		sent = append(sent, pm)
		if err := cw.WriteMessage(pm); err != nil {
			return h.Failf("WriteMessage %d: %v", i, err)
		}
		total += m.Size
		switch {
		case m.Size > 4<<20:
			cl = append(cl, "msg:>4MiB")
		case m.Size >= 32*1024-8 && m.Size <= 32*1024+1:
			cl = append(cl, "msg:around-32KiB-buffer")
		case m.Size == 0:
			cl = append(cl, "msg:empty-body")
		}
		if proto.Size(pm) == 0 {
			cl = append(cl, "msg:zero-bytes-on-the-wire")
		}
	}
	if err := cw.Close(); err != nil {
		return h.Failf("closing the writer: %v", err)
	}
	stream := buf.Bytes()
	if s.Twin {
		if s.Comp.Algo != 1 {
			cw.Close() // a second Close of a finished stream (not for cbrotli, whose C encoder is gone by then)
		}
		b1, w1, err1 := openStream(s.Comp)
		b2, w2, err2 := openStream(s.Comp)
		if err1 != nil || err2 != nil {
			return h.Failf("opening two more streams: %v %v", err1, err2)
		}
		n := len(sent)
		for i := 0; i < n; i++ {
			if err := w1.WriteMessage(sent[i]); err != nil {
				return h.Failf("twin stream 1: %v", err)
			}
			if err := w2.WriteMessage(sent[n-1-i]); err != nil {
				return h.Failf("twin stream 2: %v", err)
			}
		}
		if err := w1.Close(); err != nil {
			return h.Failf("closing twin stream 1: %v", err)
		}
		if err := w2.Close(); err != nil {
			return h.Failf("closing twin stream 2: %v", err)
		}
		cl = append(cl, "writer:two-streams-open-at-once-after-a-double-close")
		for k, tw := range []struct {
			b     *bytes.Buffer
			order func(int) int
		}{{b1, func(i int) int { return i }}, {b2, func(i int) int { return n - 1 - i }}} {
			got, err := readAll(tw.b.Bytes(), s.Msgs, tw.order)
			if err != nil {
				return h.Result{Fail: fmt.Sprintf("stream %d of two written at the same time with the same compression setting does not read back: %v", k+1, err), Classes: cl}
			}
			for i := range got {
				if !proto.Equal(got[i], sent[tw.order(i)]) {
					return h.Result{Fail: fmt.Sprintf("stream %d of two written at the same time with the same compression setting: message %d read back differs from what was written to THIS stream", k+1, i), Classes: cl}
				}
			}
		}
	}
	whole := stream
	if s.Pre > 0 {
		whole = append(h.Content{{Src: 7, Off: 5, Len: s.Pre}}.Bytes(), stream...)
		cl = append(cl, "source:stream-starts-behind-other-bytes")
	}
	open := func() (*wire.ReadContext, error) {
		src := h.Source(whole)
		var at *savior.SourceCheckpoint
		if s.Pre > 0 {
			at = &savior.SourceCheckpoint{Offset: int64(s.Pre)}
		}
		if _, err := src.Resume(at); err != nil {
			return nil, err
		}
		rr := wire.NewReadContext(src)
		if err := rr.ExpectMagic(pwr.PatchMagic); err != nil {
			return nil, err
		}
		hd := &pwr.PatchHeader{}
		if err := rr.ReadMessage(hd); err != nil {
			return nil, err
		}
		return pwr.DecompressWire(rr, hd.Compression)
	}
	type ck struct {
		next int
		data []byte
		gap  int64
	}
	var cks []ck
	var held []*wire.MessageReaderCheckpoint
	r, err := open()
	if err != nil {
		return h.Result{Fail: fmt.Sprintf("cannot open the stream that was just written: %v", err), Classes: cl}
	}
	// like the patcher, the reader reuses one message object per message type
	// (ReadMessage is documented to deserialize *into* it): stale fields from
	// the previous message must not survive
	reuse := map[string]proto.Message{}
	target := func(m Msg) proto.Message {
		if !s.Reuse {
			return empty(m)
		}
		k := fmt.Sprintf("%T", empty(m))
		if reuse[k] == nil {
			reuse[k] = empty(m)
		}
		return reuse[k]
	}
	rewound := false
	step := 0
	for i := 0; ; i, step = i+1, step+1 {
		if s.Rewind > 0 && !rewound && i == s.Rewind && i <= len(sent) {
			if err := r.Resume(nil); err != nil {
				return h.Result{Fail: fmt.Sprintf("Resume(nil) after %d messages: %v", i, err), Classes: cl}
			}
			rewound = true
			i = 0
			cl = append(cl, "reader:rewound-with-Resume(nil)")
		}
		if len(s.Saves) > 0 && s.Saves[step%len(s.Saves)] {
			r.WantSave()
		}
		var c *wire.MessageReaderCheckpoint
		if len(s.Pops) == 0 || s.Pops[step%len(s.Pops)] {
			c = r.PopCheckpoint()
		}
		if c != nil {
			gap := int64(0)
			if c.SourceCheckpoint != nil {
				gap = c.Offset - c.SourceCheckpoint.Offset
			}
			if s.Hold {
				held = append(held, c)
				cks = append(cks, ck{i, nil, gap})
			} else {
				b := new(bytes.Buffer)
				if err := gob.NewEncoder(b).Encode(c); err != nil {
					return h.Result{Fail: fmt.Sprintf("checkpoint cannot be gob-encoded: %v", err), Classes: cl}
				}
				cks = append(cks, ck{i, b.Bytes(), gap})
			}
		}
		if i == len(sent) {
			m := &pwr.SyncOp{}
			err := r.ReadMessage(m)
			if err == nil {
				return h.Result{Fail: fmt.Sprintf("read a message after the %d that were written", len(sent)), Classes: cl}
			}
			if errors.Cause(err) != io.EOF {
				return h.Result{Fail: fmt.Sprintf("end of stream reported as %v instead of io.EOF", err), Classes: cl}
			}
			break
		}
		m := target(s.Msgs[i])
		if err := r.ReadMessage(m); err != nil {
			return h.Result{Fail: fmt.Sprintf("reading message %d of %d: %v", i, len(sent), err), Classes: cl}
		}
		if !proto.Equal(m, sent[i]) {
			return h.Result{Fail: fmt.Sprintf("message %d (%s, %d bytes) read back differs from what was written", i, s.Msgs[i].Kind, s.Msgs[i].Size), Classes: cl}
		}
	}
	if s.Hold {
		for k, c := range held {
			b := new(bytes.Buffer)
			if err := gob.NewEncoder(b).Encode(c); err != nil {
				return h.Result{Fail: fmt.Sprintf("checkpoint cannot be gob-encoded: %v", err), Classes: cl}
			}
			cks[k].data = b.Bytes()
		}
		if len(held) > 1 {
			cl = append(cl, "checkpoints:held-and-serialized-after-later-ones-were-popped")
		}
	}
	nt := false
	for _, c := range cks {
		mc := &wire.MessageReaderCheckpoint{}
		if err := gob.NewDecoder(bytes.NewReader(c.data)).Decode(mc); err != nil {
			return h.Result{Fail: fmt.Sprintf("checkpoint does not survive gob: %v", err), Classes: cl}
		}
		r2, err := open()
		if err != nil {
			return h.Failf("re-open: %v", err)
		}
		for k := 0; k < s.Warm && k < len(sent); k++ {
			if err := r2.ReadMessage(target(s.Msgs[k])); err != nil {
				return h.Result{Fail: fmt.Sprintf("second reader: reading message %d: %v", k, err), Classes: cl}
			}
		}
		if err := r2.Resume(mc); err != nil {
			return h.Result{Fail: fmt.Sprintf("Resume from the checkpoint popped before message %d of %d failed: %v", c.next, len(sent), err), Classes: cl}
		}
		for i := c.next; ; i++ {
			if i == len(sent) {
				err := r2.ReadMessage(&pwr.SyncOp{})
				if errors.Cause(err) != io.EOF {
					return h.Result{Fail: fmt.Sprintf("resumed from checkpoint before message %d: end of stream reported as %v", c.next, err), Classes: cl}
				}
				break
			}
			m := target(s.Msgs[i])
			if err := r2.ReadMessage(m); err != nil {
				return h.Result{Fail: fmt.Sprintf("resumed from the checkpoint popped before message %d: reading message %d of %d: %v", c.next, i, len(sent), err), Classes: cl}
			}
			if !proto.Equal(m, sent[i]) {
				return h.Result{Fail: fmt.Sprintf("resumed from the checkpoint popped before message %d: message %d differs (the reader did not resume at the next unread message)", c.next, i), Classes: cl}
			}
		}
		if c.gap > 0 {
			cl = append(cl, "checkpoint:source-lags-message-offset")
			if s.Comp.Algo != 0 {
				nt = true
			}
		}
		if c.next == len(sent) {
			cl = append(cl, "checkpoint:after-last-message")
		}
		if c.next == 0 {
			cl = append(cl, "checkpoint:before-first-message")
		}
	}
	if len(cks) > 0 && s.Warm > 0 {
		cl = append(cl, "second-reader:had-read-messages-before-Resume")
	}
	if len(cks) > 0 {
		cl = append(cl, "checkpoints:some")
		if len(s.Pops) > 0 {
			cl = append(cl, "checkpoints:popped-some-messages-later")
		}
	}
	return h.Result{Classes: cl, NonTrivial: nt, Sub: 1 + len(cks)}
}

func genSize(t *rapid.T) int {
	k := rapid.IntRange(0, 99).Draw(t, "size-kind")
	switch {
	case k < 10:
		return 0
	case k < 45:
		return rapid.IntRange(1, 60).Draw(t, "size-small")
	case k < 60:
		return rapid.IntRange(32*1024-8, 32*1024+1).Draw(t, "size-32k")
	case k < 64:
		// around every power of two from 64 B to 128 KiB (buffer sizes of readers, writers and compressors), a few
		// bytes below it too: the serialized message is some bytes longer than its body
		p := 1 << rapid.IntRange(6, 17).Draw(t, "size-pow2-exp")
		return rapid.IntRange(p-8, p+1).Draw(t, "size-near-pow2")
	case k < 70:
		return rapid.SampledFrom([]int{65535, 65536, 65537, 1<<17 - 1, 1 << 17, 1<<17 + 1, 1<<18 + 1, 1<<20 - 1}).Draw(t, "size-pow2")
	case k < 72:
		return rapid.SampledFrom([]int{4<<20 + 1, 4<<20 + 65536, 5 << 20}).Draw(t, "size-big")
	default:
		return rapid.IntRange(0, 300000).Draw(t, "size")
	}
}

func genComp(t *rapid.T) h.Comp {
	switch rapid.IntRange(0, 2).Draw(t, "algo") {
	case 0:
		return h.Comp{}
	case 1:
		return h.Comp{Algo: 2, Q: rapid.IntRange(-2, 9).Draw(t, "q-gzip")}
	default:
		q := rapid.IntRange(0, 15).Draw(t, "q-brotli")
		if q > 11 {
			q -= 9
		}
		return h.Comp{Algo: 1, Q: q}
	}
}

var prop = h.Prop[Spec]{
	ID: "C13", Name: "wire",
	Gen: func(t *rapid.T) Spec {
		s := Spec{Comp: genComp(t)}
		n := rapid.IntRange(0, 60).Draw(t, "n")
		if rapid.IntRange(0, 3).Draw(t, "short") == 0 {
			n = rapid.IntRange(0, 4).Draw(t, "n-short")
		}
		for i := 0; i < n; i++ {
			m := Msg{Kind: rapid.SampledFrom([]string{"data", "data", "data", "control", "range", "header", "hash", "end"}).Draw(t, "kind")}
			switch m.Kind {
			case "data", "control":
				m.Size = genSize(t)
				if s.Comp.Algo == 1 && s.Comp.Q >= 10 && m.Size > 200000 {
					m.Size = 200000 // brotli 10/11 are very slow
				}
				m.Comp = rapid.Bool().Draw(t, "compressible")
				m.Off = rapid.IntRange(0, 1<<20).Draw(t, "off")
			}
			m.A = int64(rapid.IntRange(0, 5000).Draw(t, "a"))
			m.B = int64(rapid.IntRange(0, 5000).Draw(t, "b"))
			if rapid.IntRange(0, 5).Draw(t, "all-default") == 0 {
				// every field at its default: a message that serializes to 0 bytes
				m.A, m.B, m.Size = 0, 0, 0
				if m.Kind == "end" || m.Kind == "hash" {
					m.Kind = "range0"
				}
			}
			s.Msgs = append(s.Msgs, m)
		}
		s.Reuse = rapid.IntRange(0, 3).Draw(t, "reuse-objects") > 0
		s.Saves = rapid.SliceOfN(rapid.Bool(), 1, 8).Draw(t, "saves")
		if rapid.Bool().Draw(t, "always-save") {
			s.Saves = []bool{true}
		}
		if rapid.Bool().Draw(t, "pop-later") {
			s.Pops = rapid.SliceOfN(rapid.Bool(), 2, 8).Draw(t, "pops")
		}
		if rapid.IntRange(0, 3).Draw(t, "rewind") == 0 && len(s.Msgs) > 0 {
			s.Rewind = rapid.IntRange(1, len(s.Msgs)).Draw(t, "rewind-after")
		}
		if rapid.IntRange(0, 2).Draw(t, "warm-second-reader") == 0 {
			s.Warm = rapid.IntRange(1, 3).Draw(t, "warm")
		}
		s.Twin = rapid.IntRange(0, 4).Draw(t, "twin-streams") == 0
		s.Hold = rapid.IntRange(0, 2).Draw(t, "hold-checkpoints") == 0
		if rapid.IntRange(0, 3).Draw(t, "behind-other-bytes") == 0 {
			s.Pre = rapid.OneOf(rapid.IntRange(1, 64), rapid.IntRange(1, 100000)).Draw(t, "pre")
		}
		return s
	},
	Check: check,
}

func TestProp(t *testing.T) { h.Run(t, prop) }

func TestReplay(t *testing.T) {
	h.ReplayMain(t, map[string]h.Replayer{"wire": h.ReplayerOf(prop)})
}
