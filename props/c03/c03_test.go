// C03 Interrupted patch application resumes from any checkpoint to the same result.
package c03

import (
	"bytes"
	"encoding/gob"
	"fmt"
	"math/rand"
	"os"
	"path/filepath"
	"testing"

	"verif/harness/h"

	"github.com/itchio/lake"
	"github.com/itchio/lake/pools/fspool"
	"github.com/itchio/lake/tlc"
	"github.com/itchio/wharf/pwr"
	"github.com/itchio/wharf/pwr/bowl"
	"github.com/itchio/wharf/pwr/patcher"
	"github.com/pkg/errors"
	"pgregory.net/rapid"
)

type Spec struct {
	Pair       h.Pair `json:"pair"`
	Comp       h.Comp `json:"comp"`
	Optimize   bool   `json:"optimize,omitempty"`
	Parts      int    `json:"parts,omitempty"`
	Overlay    bool   `json:"overlay,omitempty"` // in-place (overlay bowl) instead of fresh bowl
	Seed       int64  `json:"seed"`              // derives sampled ks, lags, truncation lengths, garbage
	MaxResumes int    `json:"max_resumes"`
	Pattern    []bool `json:"pattern,omitempty"`  // ShouldSave answers, cyclic
	Chain      []int  `json:"chain,omitempty"`    // successive interruptions: stop at the c-th save of each session
	Liveness   bool   `json:"liveness,omitempty"` // the pair is the "many messages, much incompressible data" shape: every compression format must offer checkpoints
	Hold       bool   `json:"hold,omitempty"`     // checkpoints handed to Save are kept as objects and serialized when the session has ended
}

type saver struct {
	should func() bool
	save   func(c *patcher.Checkpoint) (patcher.AfterSaveAction, error)
}

func (s *saver) ShouldSave() bool { return s.should() }
func (s *saver) Save(c *patcher.Checkpoint) (patcher.AfterSaveAction, error) {
	return s.save(c)
}

func encodeCk(c *patcher.Checkpoint) ([]byte, error) {
	b := new(bytes.Buffer)
	err := gob.NewEncoder(b).Encode(c)
	return b.Bytes(), err
}

func decodeCk(b []byte) (*patcher.Checkpoint, error) {
	c := &patcher.Checkpoint{}
	err := gob.NewDecoder(bytes.NewReader(b)).Decode(c)
	return c, err
}

type env struct {
	patch           []byte
	overlay         bool
	old, out, stage string
	oldTree         h.Tree
	snapAt          int    // >0: inside the snapAt-th Save of a session, copy out and stage to snapDir
	snapDir         string // where
	snapErr         error
	hold            bool // checkpoints are kept as objects and gob-encoded only when the session has ended
}

func (e *env) reset() error {
	os.RemoveAll(e.out)
	os.RemoveAll(e.stage)
	if e.overlay {
		return e.oldTree.Write(e.out)
	}
	return nil
}

type sessionResult struct {
	cks      [][]byte // serialized checkpoints handed to Save, in order
	finished bool
	src      *tlc.Container
}

// session is one process lifetime: brand-new patcher, bowl and pool; resumes
// from ck (nil = from the start); should(i) answers the i-th ShouldSave call;
// stops at the stopAt-th Save of this session (0 = never).
func (e *env) session(ck []byte, stopAt int, should func(i int) bool) (*sessionResult, error) {
	p, err := patcher.New(h.Source(e.patch), h.Quiet())
	if err != nil {
		return nil, fmt.Errorf("patcher.New: %w", err)
	}
	res := &sessionResult{src: p.GetSourceContainer()}
	n, asked := 0, 0
	var encErr error
	var held []*patcher.Checkpoint
	p.SetSaveConsumer(&saver{
		should: func() bool {
			asked++
			if should == nil {
				return true
			}
			return should(asked - 1)
		},
		save: func(c *patcher.Checkpoint) (patcher.AfterSaveAction, error) {
			n++
			if e.hold {
				held = append(held, c)
				res.cks = append(res.cks, nil)
			} else {
				b, err := encodeCk(c)
				if err != nil {
					encErr = err
					return patcher.AfterSaveStop, err
				}
				res.cks = append(res.cks, b)
			}
			if n == e.snapAt && e.snapDir != "" {
				os.RemoveAll(e.snapDir)
				e.snapErr = copyTree(e.out, filepath.Join(e.snapDir, "out"))
				if _, err := os.Lstat(e.stage); err == nil && e.snapErr == nil {
					e.snapErr = copyTree(e.stage, filepath.Join(e.snapDir, "stage"))
				}
			}
			if n == stopAt {
				return patcher.AfterSaveStop, nil
			}
			return patcher.AfterSaveContinue, nil
		},
	})
	var tp lake.Pool
	var b bowl.Bowl
	if !e.overlay {
		tp = fspool.New(p.GetTargetContainer(), e.old)
		b, err = bowl.NewFreshBowl(bowl.FreshBowlParams{SourceContainer: p.GetSourceContainer(), TargetContainer: p.GetTargetContainer(), TargetPool: tp, OutputFolder: e.out})
	} else {
		tp = fspool.New(p.GetTargetContainer(), e.out)
		b, err = bowl.NewOverlayBowl(bowl.OverlayBowlParams{SourceContainer: p.GetSourceContainer(), TargetContainer: p.GetTargetContainer(), StageFolder: e.stage, OutputFolder: e.out, Consumer: h.Quiet()})
	}
	if err != nil {
		return nil, fmt.Errorf("new bowl: %w", err)
	}
	defer b.Close()
	var c *patcher.Checkpoint
	if ck != nil {
		c, err = decodeCk(ck)
		if err != nil {
			return nil, fmt.Errorf("checkpoint does not survive gob: %w", err)
		}
	}
	err = p.Resume(c, tp, b)
	for k, hc := range held {
		eb, eerr := encodeCk(hc)
		if eerr != nil && encErr == nil {
			encErr = eerr
		}
		res.cks[k] = eb
	}
	if encErr != nil {
		return nil, fmt.Errorf("checkpoint cannot be gob-encoded: %w", encErr)
	}
	if errors.Cause(err) == patcher.ErrStop {
		return res, nil
	}
	if err != nil {
		return res, fmt.Errorf("Resume: %w", err)
	}
	if err := b.Commit(); err != nil {
		return res, fmt.Errorf("Commit: %w", err)
	}
	res.finished = true
	return res, nil
}

// ckInfo extracts, independently of the patcher, which new file the checkpoint
// is inside and up to which on-disk offset its in-progress file is covered.
func ckInfo(c *patcher.Checkpoint) (fileIndex int64, off int64, inOverlay bool, bsdiff bool) {
	var wc *bowl.WriterCheckpoint
	if c.RsyncCheckpoint != nil {
		wc = c.RsyncCheckpoint.WriterCheckpoint
	} else if c.BsdiffCheckpoint != nil {
		wc = c.BsdiffCheckpoint.WriterCheckpoint
		bsdiff = true
	}
	if wc == nil {
		return c.FileIndex, 0, false, bsdiff
	}
	off = wc.Offset
	if oc, ok := wc.Data.(*bowl.OverlayEntryWriterCheckpoint); ok {
		off = oc.OverlayOffset
		inOverlay = true
	}
	return c.FileIndex, off, inOverlay, bsdiff
}

const (
	tailAsLeft = iota
	tailTruncate
	tailGarbage
	tailDeleteLater
	nTails
	// tailSnapshot: the disk state is the one at the very instant checkpoint k was handed to the consumer (a
	// copy of the output and stage folders taken inside Save): the process died right there, nothing it
	// buffered in memory ever reached the disk. Only used with lag 0.
	tailSnapshot = nTails
)

// copyTree copies a directory tree (files, directories, symlinks) as it is on disk right now.
func copyTree(src, dst string) error {
	return filepath.Walk(src, func(p string, st os.FileInfo, err error) error {
		if err != nil {
			return err
		}
		rel, _ := filepath.Rel(src, p)
		to := filepath.Join(dst, rel)
		switch {
		case st.IsDir():
			return os.MkdirAll(to, 0o755)
		case st.Mode()&os.ModeSymlink != 0:
			dest, err := os.Readlink(p)
			if err != nil {
				return err
			}
			return os.Symlink(dest, to)
		default:
			b, err := os.ReadFile(p)
			if err != nil {
				return err
			}
			return os.WriteFile(to, b, st.Mode().Perm())
		}
	})
}

// damageTail rewrites the on-disk state that is not covered by checkpoint ck
// (file index fi, offset off): everything at or after the checkpoint may be
// wholly or partly on disk.
func (e *env) damageTail(src *tlc.Container, fi, off int64, tail int, r *rand.Rand) string {
	base := e.out
	if e.overlay {
		base = e.stage
	}
	for idx, f := range src.Files {
		if int64(idx) < fi {
			continue
		}
		p := filepath.Join(base, filepath.FromSlash(f.Path))
		st, err := os.Lstat(p)
		if err != nil || !st.Mode().IsRegular() {
			continue
		}
		lo := int64(0)
		if int64(idx) == fi {
			lo = off
		}
		if st.Size() < lo {
			return fmt.Sprintf("in-progress file %s is shorter (%d) than the checkpointed offset %d right after the stop", f.Path, st.Size(), lo)
		}
		switch tail {
		case tailTruncate:
			nl := lo + r.Int63n(st.Size()-lo+1)
			if err := os.Truncate(p, nl); err != nil {
				return "harness: " + err.Error()
			}
		case tailGarbage:
			if st.Size() > lo {
				fh, err := os.OpenFile(p, os.O_WRONLY, 0)
				if err != nil {
					return "harness: " + err.Error()
				}
				g := make([]byte, st.Size()-lo)
				r.Read(g)
				fh.WriteAt(g, lo)
				fh.Close()
			}
		case tailDeleteLater:
			if int64(idx) > fi {
				os.Remove(p)
			}
		}
	}
	return ""
}

func check(s Spec) h.Result {
	d := h.TempDir("c03")
	defer os.RemoveAll(d)
	od, nd := filepath.Join(d, "old"), filepath.Join(d, "new")
	if err := s.Pair.Old.Write(od); err != nil {
		return h.Result{Skip: "cannot write old tree"}
	}
	if err := s.Pair.New.Write(nd); err != nil {
		return h.Result{Skip: "cannot write new tree"}
	}
	df, err := h.Diff(od, nd, s.Comp, nil)
	if err != nil {
		return h.Failf("diff failed: %v", err)
	}
	patch := df.Patch
	if s.Optimize {
		patch, err = h.Optimize(df.Patch, od, nd, h.OptParams{Partitions: s.Parts, Comp: s.Comp})
		if err != nil {
			return h.Failf("optimize failed: %v", err)
		}
	}
	dp, err := h.DecodePatch(patch)
	if err != nil {
		return h.Failf("cannot decode patch: %v", err)
	}
	e := &env{patch: patch, overlay: s.Overlay, old: od, out: filepath.Join(d, "out"), stage: filepath.Join(d, "stage"), oldTree: s.Pair.Old, hold: s.Hold}
	bowlName := "fresh"
	if s.Overlay {
		bowlName = "overlay"
	}
	compName := []string{"none", "brotli", "gzip"}[s.Comp.Algo]
	var cl []string
	sub := 0
	fail := func(format string, a ...interface{}) h.Result {
		return h.Result{Fail: fmt.Sprintf("[%s,%s,optimized=%v] ", bowlName, compName, s.Optimize) + fmt.Sprintf(format, a...), Classes: cl}
	}

	// 1. uninterrupted run with an always-save consumer: learns N
	if err := e.reset(); err != nil {
		return h.Result{Skip: "cannot reset"}
	}
	base, err := e.session(nil, 0, nil)
	if err != nil {
		return fail("uninterrupted run with an always-saving consumer failed: %v", err)
	}
	if !base.finished {
		return fail("uninterrupted run did not finish")
	}
	if m := h.CheckDir(e.out, s.Pair.New, false); m != "" {
		return fail("uninterrupted run with an always-saving consumer differs from the new build: %s", m)
	}
	N := len(base.cks)
	sub++
	// liveness: uncompressed patch, some streamed series with >= 4 op messages
	maxMsgs := 0
	for _, sr := range dp.Series {
		if _, whole := dp.IsWholeFile(sr); whole {
			continue
		}
		m := len(sr.Ops)
		if sr.Bsdiff {
			m = len(sr.Controls)
		}
		if m > maxMsgs {
			maxMsgs = m
		}
	}
	if s.Comp.Algo == 0 && maxMsgs >= 4 && N == 0 {
		return fail("a consumer that always asks to save was never given a checkpoint although a series has %d messages", maxMsgs)
	}
	if s.Liveness {
		cl = append(cl, "liveness:"+compName)
		// brotli at quality >= 2 emits metablocks of several MiB: an always-saving consumer got only 1-2
		// checkpoints from these 3-5 MiB patches on the unchanged tree, too thin a margin to demand one.
		// Every other setting offered >= 32.
		thin := s.Comp.Algo == 1 && s.Comp.Q >= 2
		if N == 0 && !thin {
			return fail("a consumer that always asks to save was never given a checkpoint, although the patch streams a series of %d messages and is %d bytes long (%s)", maxMsgs, len(patch), compName)
		}
	}
	if N == 0 {
		return h.Result{Classes: append(cl, "no-checkpoint-offered"), Sub: sub}
	}
	cl = append(cl, fmt.Sprintf("cell:%s/%s/%s", bowlName, map[bool]string{false: "plain", true: "optimized"}[s.Optimize], compName))
	extra := map[string]int{}
	if s.Liveness {
		extra["liveness_cases_"+compName] = 1
		extra["liveness_checkpoints_total_"+compName] = N
		if N < 5 {
			extra["liveness_cases_with_fewer_than_5_checkpoints_"+compName] = 1
		}
	}

	r := rand.New(rand.NewSource(s.Seed))
	// which checkpoints
	var ks []int
	if N <= 8 {
		for k := 1; k <= N; k++ {
			ks = append(ks, k)
		}
	} else {
		seen := map[int]bool{}
		for _, k := range []int{1, 2, N - 1, N} {
			if !seen[k] {
				seen[k] = true
				ks = append(ks, k)
			}
		}
		for len(ks) < 8 {
			k := 1 + r.Intn(N)
			if !seen[k] {
				seen[k] = true
				ks = append(ks, k)
			}
		}
	}
	nt := false
	resumes := 0
	max := s.MaxResumes
	if max <= 0 {
		max = 40
	}
outer:
	for _, k := range ks {
		lags := []int{0, 1, 2}
		if N-k > 2 {
			lags = append(lags, 3+r.Intn(N-k-2))
		}
		for _, lag := range lags {
			if k+lag > N {
				continue
			}
			tails := []int{tailAsLeft, tailTruncate, tailGarbage, tailDeleteLater, tailSnapshot}
			if lag > 0 {
				// with budget pressure, sample two tail states for lagging resumes
				tails = []int{tailAsLeft, 1 + r.Intn(nTails-1)}
			}
			for _, tail := range tails {
				if resumes >= max {
					break outer
				}
				resumes++
				sub++
				if err := e.reset(); err != nil {
					return h.Result{Skip: "cannot reset"}
				}
				e.snapAt, e.snapDir, e.snapErr = 0, "", nil
				if tail == tailSnapshot {
					e.snapAt, e.snapDir = k, filepath.Join(d, "snap")
				}
				run, err := e.session(nil, k+lag, nil)
				e.snapAt = 0
				if err != nil {
					return fail("run stopped at checkpoint %d failed: %v", k+lag, err)
				}
				if run.finished || len(run.cks) != k+lag {
					return fail("asked to stop at checkpoint %d of %d but the run offered %d checkpoints and finished=%v (checkpoint sequence is not reproducible)", k+lag, N, len(run.cks), run.finished)
				}
				ckb := run.cks[k-1]
				ck, err := decodeCk(ckb)
				if err != nil {
					return fail("checkpoint %d does not survive gob: %v", k, err)
				}
				fi, off, inOverlay, bsd := ckInfo(ck)
				if tail == tailSnapshot {
					if e.snapErr != nil {
						return h.Result{Skip: "cannot snapshot: " + e.snapErr.Error()}
					}
					os.RemoveAll(e.out)
					os.RemoveAll(e.stage)
					if err := os.Rename(filepath.Join(e.snapDir, "out"), e.out); err != nil {
						return h.Result{Skip: "cannot restore snapshot: " + err.Error()}
					}
					os.Rename(filepath.Join(e.snapDir, "stage"), e.stage)
					cl = append(cl, "resume:disk-as-it-was-inside-Save")
				} else if m := e.damageTail(run.src, fi, off, tail, r); m != "" {
					return fail("checkpoint %d (+%d): %s", k, lag, m)
				}
				res, err := e.session(ckb, 0, nil)
				desc := fmt.Sprintf("resume from checkpoint %d/%d (file %d, disk offset %d) after reaching checkpoint %d, tail state %s",
					k, N, fi, off, k+lag, []string{"as-left", "truncated", "garbage", "later-files-deleted", "as-it-was-inside-Save (process died there)"}[tail])
				if err != nil {
					return fail("%s: %v", desc, err)
				}
				if !res.finished {
					return fail("%s: did not finish", desc)
				}
				if m := h.CheckDir(e.out, s.Pair.New, false); m != "" {
					return fail("%s: result differs from the new build: %s", desc, m)
				}
				if inOverlay {
					cl = append(cl, "ck:in-overlay-file")
				}
				if bsd {
					cl = append(cl, "ck:in-bsdiff-series")
				}
				if lag > 0 {
					cl = append(cl, "resume:lag>0")
				}
				if tail != tailAsLeft {
					cl = append(cl, "resume:damaged-tail")
				}
				if (lag > 0 || tail != tailAsLeft) && off > 0 {
					nt = true
				}
			}
		}
	}

	// 2. a ShouldSave bit pattern, stop at the last save it yields, resume
	if len(s.Pattern) > 0 {
		should := func(i int) bool { return s.Pattern[i%len(s.Pattern)] }
		if err := e.reset(); err != nil {
			return h.Result{Skip: "cannot reset"}
		}
		full, err := e.session(nil, 0, should)
		if err != nil || !full.finished {
			return fail("run with ShouldSave pattern %v failed: %v", s.Pattern, err)
		}
		if m := h.CheckDir(e.out, s.Pair.New, false); m != "" {
			return fail("run with ShouldSave pattern %v differs from the new build: %s", s.Pattern, m)
		}
		sub++
		if n := len(full.cks); n > 0 {
			stop := 1 + r.Intn(n)
			e.reset()
			run, err := e.session(nil, stop, should)
			if err != nil || run.finished || len(run.cks) != stop {
				return fail("run with ShouldSave pattern %v stopping at save %d: err=%v finished=%v saves=%d", s.Pattern, stop, err, run != nil && run.finished, len(run.cks))
			}
			res, err := e.session(run.cks[stop-1], 0, should)
			if err != nil || !res.finished {
				return fail("resume after ShouldSave pattern %v stopped at save %d: err=%v", s.Pattern, stop, err)
			}
			if m := h.CheckDir(e.out, s.Pair.New, false); m != "" {
				return fail("resume after ShouldSave pattern %v stopped at save %d differs from the new build: %s", s.Pattern, stop, m)
			}
			sub++
			cl = append(cl, "schedule:pattern")
		}
	}

	// 3. chain of successive interruptions
	if len(s.Chain) > 0 {
		if err := e.reset(); err != nil {
			return h.Result{Skip: "cannot reset"}
		}
		var ckb []byte
		links := 0
		done := false
		for _, c := range s.Chain {
			run, err := e.session(ckb, c, nil)
			if err != nil {
				return fail("chain %v: session %d failed: %v", s.Chain, links, err)
			}
			if run.finished {
				done = true
				break
			}
			ckb = run.cks[len(run.cks)-1]
			links++
		}
		if !done {
			res, err := e.session(ckb, 0, nil)
			if err != nil || !res.finished {
				return fail("chain %v: final session after %d interruptions: err=%v", s.Chain, links, err)
			}
		}
		if m := h.CheckDir(e.out, s.Pair.New, false); m != "" {
			return fail("chain %v: result after %d interruptions differs from the new build: %s", s.Chain, links, m)
		}
		sub++
		if links >= 2 {
			cl = append(cl, "schedule:chain>=2")
		}
	}
	_ = pwr.BlockSize
	return h.Result{Classes: cl, NonTrivial: nt, Sub: sub, Extra: extra}
}

func genComp(t *rapid.T) h.Comp {
	switch rapid.IntRange(0, 2).Draw(t, "algo") {
	case 0:
		return h.Comp{}
	case 1:
		return h.Comp{Algo: 2, Q: rapid.SampledFrom([]int{1, 6, 9}).Draw(t, "q-gzip")}
	default:
		return h.Comp{Algo: 1, Q: rapid.SampledFrom([]int{0, 1, 4}).Draw(t, "q-brotli")}
	}
}

// genBig adds one or two multi-block files with many edits and large fresh
// inserts, so that series have many messages and compressed sources emit
// checkpoints.
func genBig(t *rapid.T, p h.Pair) h.Pair {
	nbig := rapid.IntRange(1, 2).Draw(t, "nbig")
	for i := 0; i < nbig; i++ {
		name := []string{"m", "n"}[i]
		nb := rapid.IntRange(2, 12).Draw(t, "big-blocks")
		tail := rapid.SampledFrom([]int{0, 1, 100, h.BS - 1}).Draw(t, "big-tail")
		oc := h.Content{{Src: 20 + i, Off: 0, Len: nb*h.BS + tail}}
		nc := h.EditContent(t, oc, rapid.IntRange(1, 8).Draw(t, "big-edits"), nil)
		if rapid.Bool().Draw(t, "big-insert") {
			at := rapid.IntRange(0, nc.Len()).Draw(t, "big-insert-at")
			n := rapid.SampledFrom([]int{h.BS, 4 * h.BS, 8*h.BS + 5}).Draw(t, "big-insert-len")
			nc = h.Concat(nc.Slice(0, at), h.Content{{Src: 30 + i, Off: 0, Len: n}}, nc.Slice(at, nc.Len()))
		}
		if p.Old.CanAdd(name) {
			p.Old = p.Old.Add(h.Entry{Path: name, Kind: h.KFile, C: oc})
		}
		dst := name
		if rapid.IntRange(0, 3).Draw(t, "big-rename") == 0 {
			dst = name + "2" // patched into a new path => not an overlay file
		}
		if p.New.Get(dst) == nil && p.New.CanAdd(dst) {
			p.New = p.New.Add(h.Entry{Path: dst, Kind: h.KFile, C: nc})
		}
	}
	return p
}

// livenessPair: one file of 64-96 blocks of incompressible data, cut every two blocks by a fresh insert
// of 100-200KB: a series of >= 65 messages carrying 3-10 MiB of incompressible data. Calibrated on the
// unchanged tree (see DESIGN.md section 13.2): the minimum number of checkpoints offered to an
// always-saving consumer over several hundred such patches is recorded there; the check requires >= 1.
func livenessPair(t *rapid.T) h.Pair {
	nb := 2 * rapid.IntRange(32, 48).Draw(t, "live-block-pairs")
	oc := h.Content{{Src: 25, Len: nb * h.BS}}
	nc := h.Content{}
	for i := 0; i < nb/2; i++ {
		nc = append(nc, oc.Slice(i*2*h.BS, (i+1)*2*h.BS)...)
		nc = append(nc, h.Piece{Src: 26, Off: i * 210000, Len: rapid.IntRange(100000, 200000).Draw(t, "live-insert-len")})
	}
	return h.Pair{Old: h.Tree{{Path: "L", Kind: h.KFile, C: oc}}, New: h.Tree{{Path: "L", Kind: h.KFile, C: nc}}}
}

var prop = h.Prop[Spec]{
	ID: "C03", Name: "resume",
	Gen: func(t *rapid.T) Spec {
		p := h.GenPair(t, h.GenOpts{ManyEdits: true, MaxOld: 4, MaxOps: 5, ConstCap: 16384})
		p = genBig(t, p)
		live := rapid.IntRange(0, 11).Draw(t, "liveness") == 0
		if live {
			p = livenessPair(t)
		}
		s := Spec{Pair: p, Comp: genComp(t), Liveness: live}
		s.Optimize = rapid.IntRange(0, 2).Draw(t, "optimize") == 0 && !live
		if s.Optimize {
			s.Parts = rapid.IntRange(0, 3).Draw(t, "parts")
		}
		s.Overlay = rapid.Bool().Draw(t, "overlay")
		s.Seed = int64(rapid.IntRange(1, 1<<30).Draw(t, "seed"))
		s.MaxResumes = 24
		s.Hold = rapid.IntRange(0, 2).Draw(t, "hold-checkpoints") == 0
		if rapid.IntRange(0, 2).Draw(t, "with-pattern") == 0 {
			s.Pattern = rapid.SliceOfN(rapid.Bool(), 1, 6).Draw(t, "pattern")
		}
		if rapid.IntRange(0, 2).Draw(t, "with-chain") == 0 {
			s.Chain = rapid.SliceOfN(rapid.IntRange(1, 4), 2, 4).Draw(t, "chain")
		}
		return s
	},
	Check:    check,
	Watchdog: 0,
}

func TestProp(t *testing.T) { h.Run(t, prop) }

func TestReplay(t *testing.T) {
	h.ReplayMain(t, map[string]h.Replayer{"resume": h.ReplayerOf(prop)})
}
