// C11 Rsync operations always reconstruct the source and stay within the old files.
package c11

import (
	"bytes"
	"context"
	"fmt"
	"io"
	"testing"

	"verif/harness/h"

	"github.com/itchio/wharf/wsync"
	"pgregory.net/rapid"
)

// Blob is literal bytes (tiny enumerated cases) or generated content.
type Blob struct {
	Lit string    `json:"lit,omitempty"`
	C   h.Content `json:"c,omitempty"`
}

func (b Blob) Bytes() []byte {
	if b.C != nil {
		return b.C.Bytes()
	}
	return []byte(b.Lit)
}

type Spec struct {
	BS   int    `json:"bs"`
	Olds []Blob `json:"olds"`
	New  Blob   `json:"new"`
	Pref int    `json:"pref"`
	// Rd, when not empty, slices the reads of the source (as the io.Pipe the
	// real differ reads from does); first byte odd: last bytes come with io.EOF.
	Rd []byte `json:"rd,omitempty"`
	// Over > 0: the readers the pool hands out for the old files do not end where the files end: Over more
	// bytes follow (files served from one blob, a file appended to since it was signed). GetSize is exact.
	Over int `json:"over,omitempty"`
}

type memPool struct {
	files [][]byte
	over  int
	long  [][]byte // files with the extra bytes behind them, built once
}

func (p *memPool) GetSize(i int64) int64 { return int64(len(p.files[i])) }
func (p *memPool) content(i int64) []byte {
	if p.over <= 0 {
		return p.files[i]
	}
	if p.long == nil {
		p.long = make([][]byte, len(p.files))
	}
	if p.long[i] == nil {
		b := make([]byte, 0, len(p.files[i])+p.over)
		b = append(b, p.files[i]...)
		for k := 0; k < p.over; k++ {
			b = append(b, byte('K'+k%7))
		}
		p.long[i] = b
	}
	return p.long[i]
}
func (p *memPool) GetReader(i int64) (io.Reader, error) { return bytes.NewReader(p.content(i)), nil }
func (p *memPool) GetReadSeeker(i int64) (io.ReadSeeker, error) {
	return bytes.NewReader(p.content(i)), nil
}
func (p *memPool) Close() error { return nil }

var ctxs = map[int]*wsync.Context{}

func ctxFor(bs int) *wsync.Context {
	c := ctxs[bs]
	if c == nil {
		c = wsync.NewContext(bs)
		ctxs[bs] = c
	}
	return c
}

func sign(ctx *wsync.Context, files [][]byte) ([]wsync.BlockHash, error) {
	var hs []wsync.BlockHash
	for i, f := range files {
		err := ctx.CreateSignature(context.Background(), int64(i), bytes.NewReader(f), func(bh wsync.BlockHash) error { hs = append(hs, bh); return nil })
		if err != nil {
			return nil, err
		}
	}
	return hs, nil
}

type verdict struct {
	fail     string
	hasRange bool
	hasData  bool
	short    bool
	nops     int
	bigData  bool
}

// judge runs the differ on (bs, files, src, pref) and applies the oracle.
var judgeOver int // extra bytes behind every old file's reader for the ApplySingle replay (set by check)

func judge(bs int, files [][]byte, src []byte, pref int64, viaApply bool, rd ...byte) (v verdict) {
	ctx := ctxFor(bs)
	hs, err := sign(ctx, files)
	if err != nil {
		v.fail = "CreateSignature: " + err.Error()
		return
	}
	lib := wsync.NewBlockLibrary(hs)
	var ops []wsync.Operation
	var source io.Reader = bytes.NewReader(src)
	if len(rd) > 0 {
		source = h.NewSlicedReader(source, h.NewJitter(rd, 0))
	}
	err = ctx.ComputeDiff(source, lib, func(op wsync.Operation) error {
		if op.Type == wsync.OpData {
			op.Data = append([]byte{}, op.Data...)
		}
		ops = append(ops, op)
		return nil
	}, pref)
	if err != nil {
		v.fail = "ComputeDiff: " + err.Error()
		return
	}
	v.nops = len(ops)
	// reference replay by direct indexing + well-formedness
	out := make([]byte, 0, len(src))
	for i, op := range ops {
		switch op.Type {
		case wsync.OpBlockRange:
			v.hasRange = true
			if op.FileIndex < 0 || int(op.FileIndex) >= len(files) {
				v.fail = fmt.Sprintf("op %d: file index %d outside the %d old files", i, op.FileIndex, len(files))
				return
			}
			f := files[op.FileIndex]
			nb := (int64(len(f)) + int64(bs) - 1) / int64(bs)
			if op.BlockIndex < 0 || op.BlockSpan < 1 || op.BlockIndex+op.BlockSpan > nb {
				v.fail = fmt.Sprintf("op %d: block range [%d,+%d) outside file %d which has %d blocks", i, op.BlockIndex, op.BlockSpan, op.FileIndex, nb)
				return
			}
			if i > 0 && ops[i-1].Type == wsync.OpBlockRange && ops[i-1].FileIndex == op.FileIndex && ops[i-1].BlockIndex+ops[i-1].BlockSpan == op.BlockIndex {
				v.fail = fmt.Sprintf("op %d: consecutive ranges of file %d not merged", i, op.FileIndex)
				return
			}
			lo, hi := int(op.BlockIndex)*bs, int(op.BlockIndex+op.BlockSpan)*bs
			if hi > len(f) {
				hi = len(f)
				v.short = true
			}
			out = append(out, f[lo:hi]...)
		case wsync.OpData:
			if len(op.Data) > 0 {
				v.hasData = true
			}
			if len(op.Data) > wsync.MaxDataOp {
				v.fail = fmt.Sprintf("op %d: data operation of %d bytes exceeds the 4MiB limit (%d)", i, len(op.Data), wsync.MaxDataOp)
				return
			}
			if len(op.Data) >= wsync.MaxDataOp {
				v.bigData = true
			}
			if len(op.Data) == 0 && i != 0 {
				v.fail = fmt.Sprintf("op %d: empty data operation that is not the leading one", i)
				return
			}
			out = append(out, op.Data...)
		default:
			v.fail = fmt.Sprintf("op %d: unknown type %d", i, op.Type)
			return
		}
	}
	if !bytes.Equal(out, src) {
		v.fail = fmt.Sprintf("reference replay differs from source: got %d bytes want %d, first difference at %d", len(out), len(src), firstDiff(out, src))
		return
	}
	if viaApply {
		buf := new(bytes.Buffer)
		pool := &memPool{files: files, over: judgeOver}
		for i, op := range ops {
			if err := ctx.ApplySingle(buf, pool, op); err != nil {
				v.fail = fmt.Sprintf("ApplySingle op %d: %v", i, err)
				return
			}
		}
		if !bytes.Equal(buf.Bytes(), src) {
			v.fail = fmt.Sprintf("ApplySingle replay differs from source: got %d bytes want %d, first difference at %d", buf.Len(), len(src), firstDiff(buf.Bytes(), src))
			return
		}
	}
	return
}

func firstDiff(a, b []byte) int {
	n := len(a)
	if len(b) < n {
		n = len(b)
	}
	for i := 0; i < n; i++ {
		if a[i] != b[i] {
			return i
		}
	}
	return n
}

func check(s Spec) h.Result {
	files := make([][]byte, len(s.Olds))
	for i, o := range s.Olds {
		files[i] = o.Bytes()
	}
	src := s.New.Bytes()
	if s.BS < 1 {
		return h.Result{Skip: "bs<1"}
	}
	judgeOver = s.Over
	if s.Over == 0 && s.New.C == nil && (len(src)+len(files))%2 == 1 {
		judgeOver = 1 + len(src)%5 // literal (enumerated) cases: decided from the case alone
	}
	v := judge(s.BS, files, src, int64(s.Pref), true, s.Rd...)
	if judgeOver > 0 {
		defer func() { judgeOver = 0 }()
	}
	var cl []string
	if judgeOver > 0 {
		cl = append(cl, "old-readers:longer-than-the-file")
	}
	if len(s.Rd) > 0 {
		cl = append(cl, "source:sliced-reads")
		if s.Rd[0]&1 == 1 {
			cl = append(cl, "source:last-bytes-with-EOF")
		}
	}
	cl = append(cl, fmt.Sprintf("bs:%d", s.BS))
	if v.hasRange {
		cl = append(cl, "op:range")
	}
	if v.hasData {
		cl = append(cl, "op:data")
	}
	if v.short {
		cl = append(cl, "shortblock-match")
	}
	if v.bigData {
		cl = append(cl, "data-op-at-limit")
	}
	if len(src) > wsync.MaxDataOp+2*s.BS {
		cl = append(cl, "wraps-buffer")
	}
	return h.Result{Fail: v.fail, Classes: cl, NonTrivial: (v.hasRange && v.hasData) || v.short}
}

// ---------------------------------------------------------------------------
// (a) bounded exhaustive enumeration

type space struct {
	name     string
	alpha    int
	nold     int
	oldMax   int
	newMax   int
	bsMax    int
	thorough bool
}

var spaces = []space{
	{"q:sigma2,1old<=7,new<=9", 2, 1, 7, 9, 4, false},
	{"q:sigma2,2old<=3,new<=7", 2, 2, 3, 7, 4, false},
	{"q:sigma2,3old<=2,new<=6", 2, 3, 2, 6, 4, false},
	{"q:sigma3,1old<=4,new<=6", 3, 1, 4, 6, 4, false},
	{"t:sigma2,1old<=9,new<=11", 2, 1, 9, 11, 4, true},
	{"t:sigma2,2old<=5,new<=9", 2, 2, 5, 9, 4, true},
	{"t:sigma2,3old<=3,new<=7", 2, 3, 3, 7, 4, true},
	{"t:sigma3,1old<=6,new<=8", 3, 1, 6, 8, 4, true},
	{"t:sigma3,2old<=3,new<=6", 3, 2, 3, 6, 4, true},
}

func allStrings(alpha, maxLen int) [][]byte {
	var out [][]byte
	var rec func(cur []byte)
	rec = func(cur []byte) {
		out = append(out, append([]byte{}, cur...))
		if len(cur) == maxLen {
			return
		}
		for a := 0; a < alpha; a++ {
			rec(append(cur, byte('a'+a)))
		}
	}
	rec(nil)
	return out
}

func TestEnum(t *testing.T) {
	ev := h.NewEvidence("C11", "enum")
	ev.Exhaustive = true
	defer ev.Write()
	shard, nsh := h.Shard(), h.NShards()
	for _, sp := range spaces {
		if sp.thorough != h.Thorough() {
			continue
		}
		ev.Spaces = append(ev.Spaces, sp.name)
		olds := allStrings(sp.alpha, sp.oldMax)
		news := allStrings(sp.alpha, sp.newMax)
		// all tuples of nold old files
		idx := make([]int, sp.nold)
		counter := 0
		for {
			if counter%nsh == shard {
				files := make([][]byte, sp.nold)
				for i, k := range idx {
					files[i] = olds[k]
				}
				for bs := 1; bs <= sp.bsMax; bs++ {
					for pref := -1; pref < sp.nold; pref++ {
						for _, src := range news {
							v := judge(bs, files, src, int64(pref), false)
							if v.fail != "" {
								spec := mkSpec(bs, files, src, pref)
								failEnum(t, ev, spec, v.fail)
								return
							}
							ev.CountNT(nil, (v.hasRange && v.hasData) || v.short, func() interface{} { return mkSpec(bs, files, src, pref) })
						}
					}
				}
			}
			counter++
			// next tuple
			i := 0
			for ; i < sp.nold; i++ {
				idx[i]++
				if idx[i] < len(olds) {
					break
				}
				idx[i] = 0
			}
			if i == sp.nold {
				break
			}
		}
	}
}

func mkSpec(bs int, files [][]byte, src []byte, pref int) Spec {
	s := Spec{BS: bs, New: Blob{Lit: string(src)}, Pref: pref}
	for _, f := range files {
		s.Olds = append(s.Olds, Blob{Lit: string(f)})
	}
	return s
}

func failEnum(t *testing.T, ev *h.Evidence, spec Spec, msg string) {
	p := propSmall
	if id := h.MatchKnown(&p, spec, msg); id != "" {
		ev.Excluded[id]++
		return
	}
	ev.Failures++
	h.WriteFail(p.ID, "enum", spec, msg)
	t.Fatalf("%s", msg)
}

// ---------------------------------------------------------------------------
// (a') the rest of the stated small box, sampled

var propSmall = h.Prop[Spec]{
	ID: "C11", Name: "small",
	Gen: func(t *rapid.T) Spec {
		alpha := rapid.IntRange(2, 3).Draw(t, "alpha")
		str := func(max int, label string) Blob {
			n := rapid.IntRange(0, max).Draw(t, label+"len")
			b := make([]byte, n)
			for i := range b {
				b[i] = byte('a' + rapid.IntRange(0, alpha-1).Draw(t, label))
			}
			return Blob{Lit: string(b)}
		}
		s := Spec{BS: rapid.IntRange(1, 4).Draw(t, "bs")}
		nold := rapid.IntRange(1, 3).Draw(t, "nold")
		for i := 0; i < nold; i++ {
			s.Olds = append(s.Olds, str(7, "old"))
		}
		s.New = str(9, "new")
		s.Pref = rapid.IntRange(-1, nold-1).Draw(t, "pref")
		if rapid.IntRange(0, 2).Draw(t, "sliced-source") == 0 {
			s.Rd = rapid.SliceOfN(rapid.Byte(), 1, 8).Draw(t, "rd")
		}
		if rapid.IntRange(0, 2).Draw(t, "long-readers") == 0 {
			s.Over = rapid.IntRange(1, 9).Draw(t, "over")
		}
		return s
	},
	Check:     check,
	NoJournal: true,
}

func TestSmall(t *testing.T) { h.Run(t, propSmall) }

// ---------------------------------------------------------------------------
// (b) random large content: data-op splitting and buffer wrap at every phase

var blockSizes = []int{1, 2, 3, 7, 64, 1000, 4096, 65536}

var propLarge = h.Prop[Spec]{
	ID: "C11", Name: "large",
	Gen: func(t *rapid.T) Spec {
		bs := rapid.SampledFrom(blockSizes).Draw(t, "bs")
		s := Spec{BS: bs}
		nold := rapid.IntRange(1, 3).Draw(t, "nold")
		for i := 0; i < nold; i++ {
			nb := rapid.IntRange(0, 40).Draw(t, "nb")
			tail := rapid.IntRange(0, bs-1).Draw(t, "tail")
			n := nb*bs + tail
			if rapid.IntRange(0, 9).Draw(t, "emptyold") == 0 {
				n = 0
			}
			src := 10 + i
			if rapid.IntRange(0, 3).Draw(t, "lowent") == 0 {
				src = 100 + rapid.SampledFrom([]int{1, 2, 5, 7, 64, 1000}).Draw(t, "period")
			}
			s.Olds = append(s.Olds, Blob{C: h.Content{{Src: src, Off: 0, Len: n}}})
		}
		// total length: small, around 4 MiB, around the buffer size, or > 8 MiB
		bufSize := 2*bs + wsync.MaxDataOp
		target := rapid.OneOf(
			rapid.IntRange(0, 200000),
			rapid.IntRange(wsync.MaxDataOp-2*bs-3, wsync.MaxDataOp+2*bs+3),
			rapid.IntRange(bufSize-bs-2, bufSize+bs+2),
			rapid.IntRange(2*bufSize-2*bs-2, 2*bufSize+2),
			rapid.IntRange(0, 10<<20),
		).Draw(t, "target")
		if target < 0 {
			target = 0
		}
		var c h.Content
		fresh := 0
		for c.Len() < target {
			switch rapid.IntRange(0, 4).Draw(t, "seg") {
			case 0: // fresh run, sized around the limits
				n := rapid.OneOf(
					rapid.IntRange(0, 3*bs+5),
					rapid.IntRange(wsync.MaxDataOp-2*bs-3, wsync.MaxDataOp+2*bs+3),
					rapid.IntRange(0, 5<<20),
				).Draw(t, "fresh")
				if n < 0 {
					n = 0
				}
				c = append(c, h.Piece{Src: 50, Off: fresh, Len: n})
				fresh += n
			case 1, 2: // whole blocks of an old file
				fi := rapid.IntRange(0, nold-1).Draw(t, "fi")
				fl := s.Olds[fi].C.Len()
				if fl == 0 {
					continue
				}
				nb := (fl + bs - 1) / bs
				b0 := rapid.IntRange(0, nb-1).Draw(t, "b0")
				sp := rapid.IntRange(1, nb-b0).Draw(t, "sp")
				lo, hi := b0*bs, (b0+sp)*bs
				if hi > fl {
					hi = fl
				}
				c = append(c, s.Olds[fi].C.Slice(lo, hi)...)
			case 3: // shift alignment by a few bytes
				n := rapid.IntRange(1, bs).Draw(t, "shift")
				c = append(c, h.Piece{Src: 50, Off: fresh, Len: n})
				fresh += n
			case 4: // fill exactly up to the target with fresh data (phase control)
				n := target - c.Len()
				c = append(c, h.Piece{Src: 50, Off: fresh, Len: n})
				fresh += n
			}
		}
		if rapid.IntRange(0, 2).Draw(t, "cut") == 0 && c.Len() > target {
			c = c.Slice(0, target)
		}
		s.New = Blob{C: c}
		if s.New.C == nil {
			s.New.C = h.Content{}
		}
		s.Pref = rapid.IntRange(-1, nold-1).Draw(t, "pref")
		if rapid.IntRange(0, 2).Draw(t, "sliced-source") == 0 {
			s.Rd = rapid.SliceOfN(rapid.Byte(), 1, 8).Draw(t, "rd")
		}
		if rapid.IntRange(0, 2).Draw(t, "long-readers") == 0 {
			s.Over = rapid.SampledFrom([]int{1, 7, 100000}).Draw(t, "over")
		}
		return s
	},
	Check: check,
}

func TestLarge(t *testing.T) { h.Run(t, propLarge) }

func TestReplay(t *testing.T) {
	h.ReplayMain(t, map[string]h.Replayer{
		"small": h.ReplayerOf(propSmall),
		"enum":  h.ReplayerOf(propSmall),
		"large": h.ReplayerOf(propLarge),
	})
}
