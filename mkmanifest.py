#!/usr/bin/env python3
"""Regenerates MANIFEST.json from checks_config.py (keeps the two in sync)."""
import json
import os
import sys

HERE = os.path.dirname(os.path.abspath(__file__))
sys.path.insert(0, HERE)
from checks_config import CHECKS  # noqa: E402

props = [json.loads(l) for l in open(os.path.join(HERE, "properties.jsonl"))]
BASELINE_OFF = ("cd /repo && GOFLAGS=-mod=mod GOPROXY=off go test -json -vet=off -count=1 -timeout 25m ./...")

checks = []
na = []
for p in props:
    pid = p["id"]
    c = CHECKS.get(pid)
    if not c:
        na.append({"property_id": pid, "reason": "check not built yet (work in progress; the design in DESIGN.md section 4 applies the technique to it)"})
        continue
    checks.append({
        "property_id": pid,
        "quick_cmd": "./check %s --tier quick" % pid,
        "thorough_cmd": "./check %s --tier thorough" % pid,
        "evidence_file": "/verif/evidence/%s.json" % pid,
        "replay_cmd_template": "./check %s --replay {path}" % pid,
        "engine": "pbt",
        "technique": c["technique"],
        "level_claimed": {"category": c["level"], "text": c["level_text"], "design_ref": "DESIGN.md section 4, " + pid},
        "level_note": c["level_note"],
    })

doc = {
    "version": 1,
    "setup_cmd": "./check --setup",
    "hooks": {
        "guard": "verif",
        "enable": "go test -tags verif (every check builds /repo's working tree with -tags verif; no hook exists so far, the tag is reserved)",
        "baseline_off_cmd": BASELINE_OFF,
        "source_commits": [],
        "add_only": True,
    },
    "engines": [{
        "name": "pbt",
        "path": "/verif/check",
        "serves_properties": [c["property_id"] for c in checks],
        "kind_free_text": ("python driver + Go test binaries built against /repo's working tree: pgregory.net/rapid v1.3.0 generators "
                           "with shrinking, bounded exhaustive enumeration of small spaces, Go native fuzzing (thorough tier of C10), "
                           "explicit oracles (reference models, round trips, differential and metamorphic relations)"),
    }],
    "checks": checks,
    "not_applicable": na,
    "notes": ("All checks are property-based tests / fuzzers; verdict lines and evidence come from ./check. Exit 2 means inconclusive "
              "(build failure, wall-clock cap), never a verdict. known_findings.json lists fixed and open genuine defects."),
}
json.dump(doc, open(os.path.join(HERE, "MANIFEST.json"), "w"), indent=1)
print("MANIFEST.json: %d checks, %d not applicable" % (len(checks), len(na)))
