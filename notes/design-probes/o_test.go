package scratch

import (
	"bytes"
	"context"
	"fmt"
	"io"
	"testing"

	"github.com/itchio/lake/tlc"
	"github.com/itchio/wharf/pwr"
	"github.com/itchio/wharf/wsync"
	"pgregory.net/rapid"
)

type recPool struct {
	c     *tlc.Container
	got   map[int64]*bytes.Buffer
	closed map[int64]bool
}

func (p *recPool) GetSize(i int64) int64                       { return p.c.Files[i].Size }
func (p *recPool) GetReader(i int64) (io.Reader, error)         { return nil, fmt.Errorf("no") }
func (p *recPool) GetReadSeeker(i int64) (io.ReadSeeker, error) { return nil, fmt.Errorf("no") }
func (p *recPool) Close() error                                { return nil }

type recW struct {
	p *recPool
	i int64
}

func (w *recW) Write(b []byte) (int, error) { return w.p.got[w.i].Write(b) }
func (w *recW) Close() error                { w.p.closed[w.i] = true; return nil }
func (p *recPool) GetWriter(i int64) (io.WriteCloser, error) {
	p.got[i] = new(bytes.Buffer)
	return &recW{p, i}, nil
}

func TestValidatingPoolProp(t *testing.T) {
	const B = 64 * 1024
	rapid.Check(t, func(t *rapid.T) {
		size := rapid.OneOf(rapid.IntRange(0, 10), rapid.SampledFrom([]int{B - 1, B, B + 1, 2*B - 1, 2 * B, 2*B + 1, 3 * B}), rapid.IntRange(0, 4*B)).Draw(t, "size")
		signed := rnd(rapid.Int64().Draw(t, "seed"), size)
		c := &tlc.Container{Files: []*tlc.File{{Path: "f", Size: int64(size), Mode: 0o644}}, Size: int64(size)}
		sctx := wsync.NewContext(B)
		var hs []wsync.BlockHash
		sctx.CreateSignature(context.Background(), 0, bytes.NewReader(signed), func(h wsync.BlockHash) error { hs = append(hs, h); return nil })
		si := &pwr.SignatureInfo{Container: c, Hashes: hs}
		// written content: signed with mutations
		written := append([]byte{}, signed...)
		switch rapid.IntRange(0, 4).Draw(t, "mut") {
		case 1:
			if len(written) > 0 {
				i := rapid.IntRange(0, len(written)-1).Draw(t, "flip")
				written[i] ^= 0x40
			}
		case 2:
			written = written[:rapid.IntRange(0, len(written)).Draw(t, "trunc")]
		case 3:
			written = append(written, rnd(5, rapid.IntRange(1, 2*B+10).Draw(t, "ext"))...)
		case 4:
			nflip := rapid.IntRange(1, 4).Draw(t, "nflip")
			for j := 0; j < nflip && len(written) > 0; j++ {
				written[rapid.IntRange(0, len(written)-1).Draw(t, "flipj")] ^= 1
			}
		}
		// expected: first bad block
		nSigned := (size + B - 1) / B
		nWritten := (len(written) + B - 1) / B
		firstBad := -1
		for b := 0; b < nWritten; b++ {
			lo, hi := b*B, (b+1)*B
			if hi > len(written) {
				hi = len(written)
			}
			if b >= nSigned {
				firstBad = b
				break
			}
			shi := (b + 1) * B
			if shi > size {
				shi = size
			}
			if !bytes.Equal(written[lo:hi], signed[lo:shi]) {
				firstBad = b
				break
			}
		}
		inner := &recPool{c: c, got: map[int64]*bytes.Buffer{}, closed: map[int64]bool{}}
		vp := &pwr.ValidatingPool{Pool: inner, Container: c, Signature: si}
		w, err := vp.GetWriter(0)
		if err != nil {
			t.Fatal(err)
		}
		pos := 0
		var werr error
		for pos < len(written) && werr == nil {
			n := rapid.OneOf(rapid.IntRange(1, 50), rapid.IntRange(1, 3*B)).Draw(t, "w")
			if pos+n > len(written) {
				n = len(written) - pos
			}
			_, werr = w.Write(written[pos : pos+n])
			pos += n
		}
		cerr := w.Close()
		failed := werr != nil || cerr != nil
		got := inner.got[0].Bytes()
		if firstBad < 0 {
			if failed {
				t.Fatalf("good data rejected: %v %v", werr, cerr)
			}
			if !bytes.Equal(got, written) {
				t.Fatalf("passthrough differs")
			}
		} else {
			if !failed {
				t.Fatalf("bad block %d accepted (size=%d written=%d)", firstBad, size, len(written))
			}
			if !bytes.Equal(got, written[:firstBad*B]) {
				t.Fatalf("inner got %d bytes, want %d (firstBad=%d)", len(got), firstBad*B, firstBad)
			}
		}
	})
}
