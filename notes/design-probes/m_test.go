package scratch

import (
	"context"
	"os"
	"path/filepath"
	"testing"

	"github.com/itchio/headway/state"
	"github.com/itchio/wharf/archiver"
	"github.com/itchio/wharf/pwr"
)

func healCase(t *testing.T, name string, build map[string]ent, damage func(dir string)) {
	fails := 0
	var last string
	for i := 0; i < 10; i++ {
		d := t.TempDir()
		dir := filepath.Join(d, "b")
		mk(t, dir, build)
		si := readSig(t, sigBytes(t, dir))
		zp := filepath.Join(d, "b.zip")
		fw, _ := os.Create(zp)
		_, err := archiver.CompressZip(fw, dir, &state.Consumer{})
		must(t, err)
		fw.Close()
		ref := filepath.Join(d, "ref")
		cp(t, dir, ref)
		damage(dir)
		vctx := &pwr.ValidatorContext{HealPath: "archive," + zp, Consumer: &state.Consumer{}}
		err = vctx.Validate(context.Background(), dir, si)
		if err != nil {
			fails++
			last = "heal err: " + err.Error()
		} else if e := pwr.AssertValid(dir, si); e != nil {
			fails++
			last = "still invalid: " + e.Error()
		} else if s := same(t, ref, dir); s != "" {
			// may contain extra entries; only check that ref entries exist equal
			last = "note: tree differs from ref (maybe extras): " + s
		}
	}
	t.Logf("%-45s fails=%d/10 %s", name, fails, last)
}

func TestHealCases(t *testing.T) {
	x, y := rnd(1, 2*BS+5), rnd(2, 100)
	build := map[string]ent{"a/b/f": {data: x}, "a/g": {data: y}, "a/c": {dir: true}, "a/b/e": {dir: true}, "l": {link: "a/g"}, "top": {data: y}, "emp": {data: nil}, "a/dl": {link: "b"}}
	healCase(t, "all missing (dir removed)", build, func(dir string) { os.RemoveAll(dir) })
	healCase(t, "all missing (dir empty)", build, func(dir string) { os.RemoveAll(dir); os.MkdirAll(dir, 0o755) })
	healCase(t, "dir->symlink to other dir w/ same subdirs", build, func(dir string) {
		os.RemoveAll(filepath.Join(dir, "a"))
		os.MkdirAll(filepath.Join(dir, "zz/b/e"), 0o755)
		os.MkdirAll(filepath.Join(dir, "zz/c"), 0o755)
		os.Symlink("zz", filepath.Join(dir, "a"))
	})
	healCase(t, "leaf dir->file", build, func(dir string) {
		os.RemoveAll(filepath.Join(dir, "a/c"))
		os.WriteFile(filepath.Join(dir, "a/c"), []byte("x"), 0o644)
	})
	healCase(t, "dir with file children ->file", build, func(dir string) {
		os.RemoveAll(filepath.Join(dir, "a/b"))
		os.WriteFile(filepath.Join(dir, "a/b"), []byte("x"), 0o644)
	})
	healCase(t, "file->nonempty dir", build, func(dir string) {
		os.Remove(filepath.Join(dir, "top"))
		os.MkdirAll(filepath.Join(dir, "top/sub"), 0o755)
		os.WriteFile(filepath.Join(dir, "top/sub/q"), []byte("x"), 0o644)
	})
	healCase(t, "symlink->nonempty dir", build, func(dir string) {
		os.Remove(filepath.Join(dir, "l"))
		os.MkdirAll(filepath.Join(dir, "l/sub"), 0o755)
		os.WriteFile(filepath.Join(dir, "l/sub/q"), []byte("x"), 0o644)
	})
	healCase(t, "file->symlink to identical", build, func(dir string) {
		os.Remove(filepath.Join(dir, "top"))
		os.Symlink("a/g", filepath.Join(dir, "top"))
	})
	healCase(t, "empty file -> nonempty", build, func(dir string) { os.WriteFile(filepath.Join(dir, "emp"), []byte("xx"), 0o644) })
	healCase(t, "file longer", build, func(dir string) {
		f, _ := os.OpenFile(filepath.Join(dir, "a/b/f"), os.O_APPEND|os.O_WRONLY, 0)
		f.Write([]byte("zzz"))
		f.Close()
	})
	healCase(t, "symlink under dir->file", build, func(dir string) {
		os.RemoveAll(filepath.Join(dir, "a"))
		os.WriteFile(filepath.Join(dir, "a"), []byte("x"), 0o644)
	})
	healCase(t, "already valid", build, func(dir string) {})
}
