package scratch

import (
	"bytes"
	"io"
	"testing"

	"github.com/itchio/savior/seeksource"
	"github.com/itchio/wharf/pwr/overlay"
	"pgregory.net/rapid"
)

type memWS struct {
	buf []byte
	pos int64
}

func (m *memWS) Write(p []byte) (int, error) {
	end := m.pos + int64(len(p))
	if end > int64(len(m.buf)) {
		m.buf = append(m.buf, make([]byte, end-int64(len(m.buf)))...)
	}
	copy(m.buf[m.pos:], p)
	m.pos = end
	return len(p), nil
}
func (m *memWS) Seek(off int64, whence int) (int64, error) {
	switch whence {
	case io.SeekStart:
		m.pos = off
	case io.SeekCurrent:
		m.pos += off
	case io.SeekEnd:
		m.pos = int64(len(m.buf)) + off
	}
	return m.pos, nil
}

// generate (old,new) as sequence of segments: equal run / differing run / insert? (overlay is positional, so only same-position equality matters)
func genPair(t *rapid.T) (old, nw []byte) {
	nseg := rapid.IntRange(0, 8).Draw(t, "nseg")
	seed := rapid.Int64().Draw(t, "seed")
	base := rnd(seed, 700*1024)
	if rapid.Bool().Draw(t, "periodic") {
		per := rapid.SampledFrom([]int{1, 2, 7, 4096, 8192, 10000}).Draw(t, "period")
		for i := per; i < len(base); i++ {
			base[i] = base[i-per]
		}
	}
	pos := 0
	for i := 0; i < nseg; i++ {
		kind := rapid.IntRange(0, 1).Draw(t, "kind")
		n := rapid.OneOf(rapid.IntRange(0, 40), rapid.IntRange(8150, 8250), rapid.IntRange(0, 140*1024), rapid.SampledFrom([]int{8191, 8192, 8193, 128*1024 - 1, 128 * 1024, 128*1024 + 1})).Draw(t, "n")
		if pos+n > len(base) {
			n = len(base) - pos
		}
		seg := base[pos : pos+n]
		pos += n
		old = append(old, seg...)
		if kind == 0 {
			nw = append(nw, seg...)
		} else {
			for _, b := range seg {
				nw = append(nw, b^0x55)
			}
		}
	}
	// length relation
	switch rapid.IntRange(0, 2).Draw(t, "lenrel") {
	case 1:
		cut := rapid.IntRange(0, len(nw)).Draw(t, "cutnew")
		nw = nw[:cut]
	case 2:
		cut := rapid.IntRange(0, len(old)).Draw(t, "cutold")
		old = old[:cut]
	}
	return
}

func TestOverlayProp(t *testing.T) {
	rapid.Check(t, func(t *rapid.T) {
		old, nw := genPair(t)
		ov := new(bytes.Buffer)
		r := bytes.NewReader(old)
		w, err := overlay.NewOverlayWriter(r, 0, ov, 0)
		if err != nil {
			t.Fatal(err)
		}
		pos := 0
		for pos < len(nw) {
			n := rapid.OneOf(rapid.IntRange(1, 100), rapid.IntRange(1, 300*1024)).Draw(t, "w")
			if pos+n > len(nw) {
				n = len(nw) - pos
			}
			_, err := w.Write(nw[pos : pos+n])
			if err != nil {
				t.Fatal(err)
			}
			pos += n
			act := rapid.IntRange(0, 5).Draw(t, "act")
			if act == 0 {
				if err := w.Flush(); err != nil {
					t.Fatal(err)
				}
			} else if act == 1 {
				// session break
				if err := w.Flush(); err != nil {
					t.Fatal(err)
				}
				ro, oo := w.ReadOffset(), w.OverlayOffset()
				// simulate stale tail
				stale := append([]byte{}, ov.Bytes()[:oo]...)
				ov = bytes.NewBuffer(stale)
				r = bytes.NewReader(old)
				r.Seek(ro, io.SeekStart)
				w, err = overlay.NewOverlayWriter(r, ro, ov, oo)
				if err != nil {
					t.Fatal(err)
				}
			}
		}
		if err := w.Finalize(); err != nil {
			t.Fatal(err)
		}
		out := &memWS{buf: append([]byte{}, old...)}
		src := seeksource.FromBytes(ov.Bytes())
		if _, err := src.Resume(nil); err != nil {
			t.Fatal(err)
		}
		pc := &overlay.OverlayPatchContext{}
		if err := pc.Patch(src, out); err != nil {
			t.Fatalf("patch: %v", err)
		}
		res := out.buf
		if int(out.pos) > len(res) {
			t.Fatalf("pos beyond")
		}
		res = res[:out.pos]
		if !bytes.Equal(res, nw) {
			t.Fatalf("mismatch len(old)=%d len(new)=%d len(res)=%d", len(old), len(nw), len(res))
		}
	})
}
