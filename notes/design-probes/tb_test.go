package scratch

type TB interface {
	Fatalf(format string, args ...any)
	Helper()
	Logf(format string, args ...any)
}
