package scratch

import (
	"os"
	"path/filepath"
	"testing"
	"bytes"

	"github.com/itchio/headway/state"
	"github.com/itchio/wharf/archiver"
)

func inplace(t *testing.T, name string, oldm, newm map[string]ent) {
	d := t.TempDir()
	old, nw, work := filepath.Join(d, "old"), filepath.Join(d, "new"), filepath.Join(d, "work")
	mk(t, old, oldm)
	mk(t, nw, newm)
	mk(t, work, oldm)
	patch, _, _ := diff(t, old, nw, nil)
	err := applyInPlace(t, patch, work, filepath.Join(d, "stage"))
	res := "-"
	if err == nil {
		res = same(t, nw, work)
	}
	// fresh too
	out := filepath.Join(d, "out")
	ferr := applyFresh(t, patch, old, out, nil)
	fres := "-"
	if ferr == nil {
		fres = same(t, nw, out)
	}
	t.Logf("%-40s inplace err=%v same=%q | fresh err=%v same=%q", name, err, res, ferr, fres)
}

func TestKindChanges(t *testing.T) {
	x := rnd(1, 2*BS+5)
	y := rnd(2, BS+5)
	inplace(t, "file->dir, content moved inside", map[string]ent{"foo": {data: x}}, map[string]ent{"foo/bar": {data: x}})
	inplace(t, "file->dir, unrelated", map[string]ent{"foo": {data: x}}, map[string]ent{"foo/bar": {data: y}})
	inplace(t, "file->symlink, content renamed", map[string]ent{"foo": {data: x}, "k": {data: y}}, map[string]ent{"foo": {link: "k"}, "k": {data: y}, "z": {data: x}})
	inplace(t, "nonempty dir->file", map[string]ent{"d/a": {data: x}, "d/b": {data: y}}, map[string]ent{"d": {data: y}})
	inplace(t, "nonempty dir->file (new content)", map[string]ent{"d/a": {data: x}, "d/b": {data: y}}, map[string]ent{"d": {data: rnd(5, 100)}})
	inplace(t, "empty dir->file", map[string]ent{"d": {dir: true}}, map[string]ent{"d": {data: y}})
	inplace(t, "dir->symlink, content renamed", map[string]ent{"d/a": {data: x}, "k": {data: y}}, map[string]ent{"d": {link: "k"}, "k": {data: y}, "e/a": {data: x}})
	inplace(t, "dir->symlink, plain", map[string]ent{"d/a": {data: x}, "k": {data: y}}, map[string]ent{"d": {link: "k"}, "k": {data: y}})
	inplace(t, "symlink->dir", map[string]ent{"d": {link: "k"}, "k": {data: y}}, map[string]ent{"d/a": {data: x}, "k": {data: y}})
	inplace(t, "swap", map[string]ent{"a": {data: x}, "b": {data: y}}, map[string]ent{"a": {data: y}, "b": {data: x}})
	inplace(t, "chain+patch", map[string]ent{"a": {data: x}, "b": {data: y}}, map[string]ent{"b": {data: x}, "c": {data: y}, "a": {data: append(append([]byte{}, x[:BS]...), y...)}})
	inplace(t, "dup no keep", map[string]ent{"a": {data: x}}, map[string]ent{"b": {data: x}, "c": {data: x}, "d/e": {data: x}})
	inplace(t, "empty file -> nonempty", map[string]ent{"a": {data: nil}}, map[string]ent{"a": {data: x}})
	inplace(t, "nonempty -> empty", map[string]ent{"a": {data: x}}, map[string]ent{"a": {data: nil}})
	inplace(t, "file in deleted dir renamed", map[string]ent{"d/a": {data: x}}, map[string]ent{"a": {data: x}})
	inplace(t, "file->dir same name deeper", map[string]ent{"p/foo": {data: x}, "p/q": {data: y}}, map[string]ent{"p/foo/q": {data: y}, "p/foo/r": {data: x}})
}

func TestZipRace(t *testing.T) {
	d := t.TempDir()
	src := filepath.Join(d, "src")
	m := map[string]ent{}
	for i := 0; i < 300; i++ {
		m[filepath.Join("d"+string(rune('a'+i%7)), "f"+string(rune('a'+i%26))+string(rune('a'+i/26)))] = ent{data: rnd(int64(i), 10+i)}
	}
	mk(t, src, m)
	buf := new(bytes.Buffer)
	_, err := archiver.CompressZip(buf, src, &state.Consumer{})
	must(t, err)
	bad := 0
	for i := 0; i < 20; i++ {
		out := filepath.Join(d, "out")
		os.RemoveAll(out)
		res, err := archiver.ExtractZip(bytes.NewReader(buf.Bytes()), int64(buf.Len()), out, archiver.ExtractSettings{Consumer: &state.Consumer{}, Concurrency: 8})
		must(t, err)
		if res.Files != 300 || res.Dirs != 7 {
			bad++
		}
	}
	t.Logf("wrong counts in %d/20 runs", bad)
}
