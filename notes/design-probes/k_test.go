package scratch

import (
	"bytes"
	"testing"

	"github.com/itchio/savior/seeksource"
	"github.com/itchio/wharf/pwr"
	"github.com/itchio/wharf/wire"
)

func TestWireEnd(t *testing.T) {
	for _, algo := range []pwr.CompressionAlgorithm{pwr.CompressionAlgorithm_NONE, pwr.CompressionAlgorithm_GZIP, pwr.CompressionAlgorithm_BROTLI} {
		for _, sizes := range [][]int{{0}, {10}, {100000}, {5, 100000, 7}, {100000, 100000, 100000}} {
			comp := &pwr.CompressionSettings{Algorithm: algo, Quality: 1}
			buf := new(bytes.Buffer)
			raw := wire.NewWriteContext(buf)
			raw.WriteMagic(pwr.PatchMagic)
			raw.WriteMessage(&pwr.PatchHeader{Compression: comp})
			cw, err := pwr.CompressWire(raw, comp)
			must(t, err)
			for i, s := range sizes {
				must(t, cw.WriteMessage(&pwr.SyncOp{Type: pwr.SyncOp_DATA, Data: rnd(int64(i), s)}))
			}
			must(t, cw.Close())
			open := func() *wire.ReadContext {
				src := seeksource.FromBytes(buf.Bytes())
				src.Resume(nil)
				rr := wire.NewReadContext(src)
				must(t, rr.ExpectMagic(pwr.PatchMagic))
				h := &pwr.PatchHeader{}
				must(t, rr.ReadMessage(h))
				dr, err := pwr.DecompressWire(rr, h.Compression)
				must(t, err)
				return dr
			}
			r := open()
			op := &pwr.SyncOp{}
			var last *wire.MessageReaderCheckpoint
			for range sizes {
				r.WantSave()
				must(t, r.ReadMessage(op))
				if c := r.PopCheckpoint(); c != nil {
					last = c
				}
			}
			if last == nil {
				t.Logf("%v %v: no checkpoint", algo, sizes)
				continue
			}
			r2 := open()
			err = r2.Resume(last)
			var err2 error
			if err == nil {
				err2 = r2.ReadMessage(op)
			}
			t.Logf("%v %v: ckpt off=%d srcoff=%d resume err=%v, next read err=%v", algo, sizes, last.Offset, last.SourceCheckpoint.Offset, err, err2)
		}
	}
}
