package scratch

import (
	"bytes"
	"context"
	"io"
	"math/rand"
	"os"
	"path/filepath"
	"runtime"
	"testing"
	"time"

	"github.com/itchio/headway/state"
	"github.com/itchio/lake"
	"github.com/itchio/lake/pools/fspool"
	"github.com/itchio/wharf/pwr"
	"pgregory.net/rapid"
)

type jitterPool struct {
	lake.Pool
	r *rand.Rand
}
type jitterReader struct {
	io.Reader
	r *rand.Rand
}

func (j *jitterReader) Read(p []byte) (int, error) {
	if len(p) > 1 {
		n := 1 + j.r.Intn(len(p))
		p = p[:n]
	}
	switch j.r.Intn(6) {
	case 0:
		runtime.Gosched()
	case 1:
		time.Sleep(time.Duration(j.r.Intn(50)) * time.Microsecond)
	}
	return j.Reader.Read(p)
}
func (p *jitterPool) GetReader(i int64) (io.Reader, error) {
	r, err := p.Pool.GetReader(i)
	if err != nil {
		return nil, err
	}
	return &jitterReader{r, p.r}, nil
}

type jitterWriter struct {
	bytes.Buffer
	r *rand.Rand
}

func (w *jitterWriter) Write(p []byte) (int, error) {
	if w.r.Intn(8) == 0 {
		runtime.Gosched()
	}
	return w.Buffer.Write(p)
}

func TestDetProp(t *testing.T) {
	rapid.Check(t, func(t *rapid.T) {
		old := genOld(t)
		nw := genNew(t, old, true)
		d, _ := os.MkdirTemp("", "det")
		defer os.RemoveAll(d)
		od, nd := filepath.Join(d, "old"), filepath.Join(d, "new")
		old.write(t, od)
		nw.write(t, nd)
		comp := &pwr.CompressionSettings{Algorithm: rapid.SampledFrom([]pwr.CompressionAlgorithm{0, 1, 2}).Draw(t, "algo"), Quality: int32(rapid.IntRange(1, 6).Draw(t, "q"))}
		tc, sc := walk(t, od), walk(t, nd)
		th, err := pwr.ComputeSignature(context.Background(), tc, fspool.New(tc, od), &state.Consumer{})
		if err != nil {
			t.Fatal(err)
		}
		var p0, s0 []byte
		for i := 0; i < 4; i++ {
			runtime.GOMAXPROCS([]int{1, 2, 3, 16}[i])
			seed := rapid.Int64().Draw(t, "jseed")
			jr := rand.New(rand.NewSource(seed))
			dctx := &pwr.DiffContext{Compression: comp, Consumer: &state.Consumer{}, SourceContainer: sc, Pool: &jitterPool{fspool.New(sc, nd), jr}, TargetContainer: tc, TargetSignature: th}
			pw, sw := &jitterWriter{r: rand.New(rand.NewSource(seed + 1))}, &jitterWriter{r: rand.New(rand.NewSource(seed + 2))}
			if err := dctx.WritePatch(context.Background(), pw, sw); err != nil {
				t.Fatal(err)
			}
			if i == 0 {
				p0, s0 = pw.Bytes(), sw.Bytes()
			} else if !bytes.Equal(p0, pw.Bytes()) || !bytes.Equal(s0, sw.Bytes()) {
				t.Fatalf("run %d differs", i)
			}
		}
		runtime.GOMAXPROCS(16)
	})
}
