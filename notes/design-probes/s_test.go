package scratch

import (
	"bytes"
	"fmt"
	"testing"

	"github.com/itchio/wharf/wsync"
	"pgregory.net/rapid"
)

// C11 random large: content assembled from old blocks (aligned/shifted), fresh runs, crossing 4MiB flush and wrap
func TestLargeDiffProp(t *testing.T) {
	ctxs := map[int]*wsync.Context{}
	rapid.Check(t, func(t *rapid.T) {
		bs := rapid.SampledFrom([]int{1, 2, 3, 7, 64, 1000, 4096, 65536}).Draw(t, "bs")
		nold := rapid.IntRange(1, 3).Draw(t, "nold")
		var files [][]byte
		for i := 0; i < nold; i++ {
			nb := rapid.IntRange(0, 40).Draw(t, "nb")
			tail := rapid.IntRange(0, bs-1).Draw(t, "tail")
			n := nb*bs + tail
			if n > 3<<20 {
				n = 3 << 20
			}
			var f []byte
			if rapid.Bool().Draw(t, "lowent") {
				f = bytes.Repeat([]byte{1, 2, 3, 1, 2}, n/5+1)[:n]
			} else {
				f = append([]byte{}, blob(int64(10+i), 8*BS)[:min2(n, 8*BS)]...)
				for len(f) < n {
					f = append(f, f[:min2(len(f), n-len(f))]...)
				}
			}
			files = append(files, f)
		}
		// build source
		var src []byte
		target := rapid.IntRange(0, 10<<20).Draw(t, "target")
		if rapid.IntRange(0, 3).Draw(t, "small") == 0 {
			target = rapid.IntRange(0, 200000).Draw(t, "target2")
		}
		for len(src) < target {
			switch rapid.IntRange(0, 3).Draw(t, "seg") {
			case 0: // fresh run
				n := rapid.OneOf(rapid.IntRange(0, 3*bs+5), rapid.IntRange(4<<20-2*bs-3, 4<<20+2*bs+3), rapid.IntRange(0, 5<<20)).Draw(t, "fresh")
				src = append(src, blob(99, 8*BS)[:min2(n, 8*BS)]...)
				for k := 8 * BS; k < n; k += 8 * BS {
					src = append(src, blob(98, 8*BS)[:min2(n-k, 8*BS)]...)
				}
			case 1, 2: // old blocks
				f := files[rapid.IntRange(0, nold-1).Draw(t, "fi")]
				if len(f) == 0 {
					continue
				}
				nb := (len(f) + bs - 1) / bs
				b0 := rapid.IntRange(0, nb-1).Draw(t, "b0")
				sp := rapid.IntRange(1, nb-b0).Draw(t, "sp")
				lo, hi := b0*bs, (b0+sp)*bs
				if hi > len(f) {
					hi = len(f)
				}
				src = append(src, f[lo:hi]...)
			case 3: // shift by small amount
				n := rapid.IntRange(1, bs).Draw(t, "shift")
				src = append(src, blob(97, 8*BS)[:min2(n, 8*BS)]...)
			}
		}
		pref := int64(rapid.IntRange(-1, nold-1).Draw(t, "pref"))
		if bs == 1 && len(src) > 0 && len(src)%(4<<20+2) == 0 {
			t.Skip("F23")
		}
		ctx := ctxs[bs]
		if ctx == nil {
			ctx = wsync.NewContext(bs)
			ctxs[bs] = ctx
		}
		lib := wsync.NewBlockLibrary(sign(bs, files))
		var ops []wsync.Operation
		err := ctx.ComputeDiff(bytes.NewReader(src), lib, func(op wsync.Operation) error {
			if op.Type == wsync.OpData {
				op.Data = append([]byte{}, op.Data...)
			}
			ops = append(ops, op)
			return nil
		}, pref)
		if err != nil {
			t.Fatal(err)
		}
		msg := checkOps2(bs, files, src, ops)
		if msg != "" {
			t.Fatalf("bs=%d len(src)=%d: %s", bs, len(src), msg)
		}
	})
}

func min2(a, b int) int {
	if a < b {
		return a
	}
	return b
}

// reference replay by direct indexing; ignores the 4MiB rule (known F1) but reports it separately
func checkOps2(bs int, files [][]byte, src []byte, ops []wsync.Operation) string {
	var out []byte
	for i, op := range ops {
		if op.Type == wsync.OpBlockRange {
			if op.FileIndex < 0 || int(op.FileIndex) >= len(files) {
				return "bad file index"
			}
			f := files[op.FileIndex]
			nb := (int64(len(f)) + int64(bs) - 1) / int64(bs)
			if op.BlockIndex < 0 || op.BlockSpan < 1 || op.BlockIndex+op.BlockSpan > nb {
				return fmt.Sprintf("range outside file: %+v nb=%d", op, nb)
			}
			if i > 0 && ops[i-1].Type == wsync.OpBlockRange && ops[i-1].FileIndex == op.FileIndex && ops[i-1].BlockIndex+ops[i-1].BlockSpan == op.BlockIndex {
				return "unmerged ranges"
			}
			lo, hi := int(op.BlockIndex)*bs, int(op.BlockIndex+op.BlockSpan)*bs
			if hi > len(f) {
				hi = len(f)
			}
			out = append(out, f[lo:hi]...)
		} else {
			if len(op.Data) > wsync.MaxDataOp+2*bs {
				return "data op way too large"
			}
			if len(op.Data) == 0 && i != 0 {
				return "empty non-leading data op"
			}
			out = append(out, op.Data...)
		}
	}
	if !bytes.Equal(out, src) {
		return fmt.Sprintf("replay mismatch: got %d bytes want %d", len(out), len(src))
	}
	return ""
}
