package scratch

import (
	"bytes"
	"context"
	"fmt"
	"path/filepath"
	"testing"

	"github.com/itchio/headway/state"
	"github.com/itchio/lake/pools/fspool"
	"github.com/itchio/lake/tlc"
	"github.com/itchio/savior/seeksource"
	"github.com/itchio/wharf/pwr"
	"github.com/itchio/wharf/pwr/bowl"
	"github.com/itchio/wharf/pwr/patcher"
	"github.com/itchio/wharf/pwr/rediff"
	"github.com/itchio/wharf/wire"
	"github.com/golang/protobuf/proto"
)

func TestHashInfoTruncAll(t *testing.T) {
	d := t.TempDir()
	dir := filepath.Join(d, "b")
	mk(t, dir, map[string]ent{"f": {data: rnd(1, 3*BS+5)}, "g": {data: rnd(2, 1000)}, "e": {data: nil}})
	sig := sigBytes(t, dir)
	res := map[string]int{}
	for cut := 0; cut <= len(sig); cut++ {
		func() {
			defer func() {
				if r := recover(); r != nil {
					res[fmt.Sprintf("PANIC %v", r)]++
				}
			}()
			src := seeksource.FromBytes(sig[:cut])
			src.Resume(nil)
			si, err := pwr.ReadSignature(context.Background(), src)
			if err != nil {
				res["readsig err"]++
				return
			}
			_, err = pwr.ComputeHashInfo(si)
			if err != nil {
				res["hashinfo err"]++
			} else {
				res["ok"]++
			}
		}()
	}
	t.Logf("%v", res)
}

// build a patch by hand with mutated ops
func handPatch(t TB, tc, sc *tlc.Container, msgs ...proto.Message) []byte {
	buf := new(bytes.Buffer)
	w := wire.NewWriteContext(buf)
	must(t, w.WriteMagic(pwr.PatchMagic))
	must(t, w.WriteMessage(&pwr.PatchHeader{Compression: &pwr.CompressionSettings{Algorithm: pwr.CompressionAlgorithm_NONE}}))
	must(t, w.WriteMessage(tc))
	must(t, w.WriteMessage(sc))
	for _, m := range msgs {
		must(t, w.WriteMessage(m))
	}
	return buf.Bytes()
}

func TestPatcherMalformed(t *testing.T) {
	d := t.TempDir()
	old, nw := filepath.Join(d, "old"), filepath.Join(d, "new")
	mk(t, old, map[string]ent{"x": {data: rnd(1, 2*BS+5)}})
	mk(t, nw, map[string]ent{"y": {data: rnd(1, 2*BS+5)}})
	tc, sc := walk(t, old), walk(t, nw)
	end := &pwr.SyncOp{Type: pwr.SyncOp_HEY_YOU_DID_IT}
	cases := map[string][]proto.Message{
		"fileindex huge first op":  {&pwr.SyncHeader{FileIndex: 0}, &pwr.SyncOp{Type: pwr.SyncOp_BLOCK_RANGE, FileIndex: 99, BlockIndex: 0, BlockSpan: 3}, end},
		"fileindex neg first op":   {&pwr.SyncHeader{FileIndex: 0}, &pwr.SyncOp{Type: pwr.SyncOp_BLOCK_RANGE, FileIndex: -1, BlockIndex: 0, BlockSpan: 3}, end},
		"fileindex huge second op": {&pwr.SyncHeader{FileIndex: 0}, &pwr.SyncOp{Type: pwr.SyncOp_DATA, Data: []byte("a")}, &pwr.SyncOp{Type: pwr.SyncOp_BLOCK_RANGE, FileIndex: 99, BlockIndex: 0, BlockSpan: 3}, end},
		"blockindex huge":          {&pwr.SyncHeader{FileIndex: 0}, &pwr.SyncOp{Type: pwr.SyncOp_DATA, Data: []byte("a")}, &pwr.SyncOp{Type: pwr.SyncOp_BLOCK_RANGE, FileIndex: 0, BlockIndex: 1 << 50, BlockSpan: 3}, end},
		"blockspan neg":            {&pwr.SyncHeader{FileIndex: 0}, &pwr.SyncOp{Type: pwr.SyncOp_DATA, Data: []byte("a")}, &pwr.SyncOp{Type: pwr.SyncOp_BLOCK_RANGE, FileIndex: 0, BlockIndex: 0, BlockSpan: -5}, end},
		"bsdiff target huge":       {&pwr.SyncHeader{FileIndex: 0, Type: pwr.SyncHeader_BSDIFF}, &pwr.BsdiffHeader{TargetIndex: 7}, end},
		"bsdiff target neg":        {&pwr.SyncHeader{FileIndex: 0, Type: pwr.SyncHeader_BSDIFF}, &pwr.BsdiffHeader{TargetIndex: -7}, end},
	}
	for name, msgs := range cases {
		patch := handPatch(t, tc, sc, msgs...)
		for _, mode := range []string{"patcher-fresh", "patcher-overlay", "rediff"} {
			func() {
				defer func() {
					if r := recover(); r != nil {
						t.Logf("%-28s %-16s PANIC %v", name, mode, r)
					}
				}()
				var err error
				switch mode {
				case "patcher-fresh":
					err = applyFresh(t, patch, old, filepath.Join(d, "out"), nil)
				case "patcher-overlay":
					o2 := filepath.Join(d, "o2")
					mk(t, o2, map[string]ent{"x": {data: rnd(1, 2*BS+5)}})
					err = applyInPlace(t, patch, o2, filepath.Join(d, "stage"))
				case "rediff":
					var rc rediff.Context
					rc, err = rediff.NewContext(rediff.Params{PatchReader: seeksource.FromBytes(patch), Consumer: &state.Consumer{}})
					if err == nil {
						err = rc.Optimize(rediff.OptimizeParams{TargetPool: fspool.New(tc, old), SourcePool: fspool.New(sc, nw), PatchWriter: new(bytes.Buffer)})
					}
				}
				t.Logf("%-28s %-16s err=%v", name, mode, err != nil)
			}()
		}
	}
}

var _ = bowl.NewDryBowl
var _ = patcher.New
