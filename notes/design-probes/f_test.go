package scratch

import (
	"bytes"
	"context"
	"fmt"
	"io"
	"testing"

	"github.com/itchio/wharf/wsync"
)

type memPool struct{ files [][]byte }

func (p *memPool) GetSize(i int64) int64 { return int64(len(p.files[i])) }
func (p *memPool) GetReader(i int64) (io.Reader, error) { return bytes.NewReader(p.files[i]), nil }
func (p *memPool) GetReadSeeker(i int64) (io.ReadSeeker, error) { return bytes.NewReader(p.files[i]), nil }
func (p *memPool) Close() error { return nil }

func sign(bs int, files [][]byte) []wsync.BlockHash {
	ctx := wsync.NewContext(bs)
	var hs []wsync.BlockHash
	for i, f := range files {
		err := ctx.CreateSignature(context.Background(), int64(i), bytes.NewReader(f), func(h wsync.BlockHash) error { hs = append(hs, h); return nil })
		if err != nil {
			panic(err)
		}
	}
	return hs
}

type opRec struct {
	wsync.Operation
}

func diffOps(bs int, files [][]byte, src []byte, pref int64) ([]wsync.Operation, error) {
	ctx := wsync.NewContext(bs)
	lib := wsync.NewBlockLibrary(sign(bs, files))
	var ops []wsync.Operation
	err := ctx.ComputeDiff(bytes.NewReader(src), lib, func(op wsync.Operation) error {
		if op.Type == wsync.OpData {
			op.Data = append([]byte{}, op.Data...)
		}
		ops = append(ops, op)
		return nil
	}, pref)
	return ops, err
}

func checkOps(bs int, files [][]byte, src []byte, ops []wsync.Operation) string {
	ctx := wsync.NewContext(bs)
	out := new(bytes.Buffer)
	pool := &memPool{files}
	for i, op := range ops {
		if op.Type == wsync.OpBlockRange {
			if op.FileIndex < 0 || int(op.FileIndex) >= len(files) {
				return "bad file index"
			}
			nb := (int64(len(files[op.FileIndex])) + int64(bs) - 1) / int64(bs)
			if op.BlockIndex < 0 || op.BlockSpan < 1 || op.BlockIndex+op.BlockSpan > nb {
				return fmt.Sprintf("range outside file: %+v nb=%d", op, nb)
			}
			if i > 0 && ops[i-1].Type == wsync.OpBlockRange && ops[i-1].FileIndex == op.FileIndex && ops[i-1].BlockIndex+ops[i-1].BlockSpan == op.BlockIndex {
				return "unmerged ranges"
			}
		} else {
			if len(op.Data) > wsync.MaxDataOp {
				return "data op too large"
			}
			if len(op.Data) == 0 && i != 0 {
				return "empty non-leading data op"
			}
		}
		if err := ctx.ApplySingle(out, pool, op); err != nil {
			return "apply err " + err.Error()
		}
	}
	if !bytes.Equal(out.Bytes(), src) {
		return fmt.Sprintf("replay mismatch: got %q want %q ops=%+v", out.Bytes(), src, ops)
	}
	return ""
}

func allStrings(alpha, maxLen int, f func([]byte)) {
	var rec func(cur []byte)
	rec = func(cur []byte) {
		f(cur)
		if len(cur) == maxLen {
			return
		}
		for a := 0; a < alpha; a++ {
			rec(append(cur, byte('a'+a)))
		}
	}
	rec(nil)
}

func TestExhaustiveSmall(t *testing.T) {
	n, bad := 0, 0
	first := ""
	for bs := 1; bs <= 3; bs++ {
		allStrings(2, 5, func(o []byte) {
			old := append([]byte{}, o...)
			allStrings(2, 7, func(s []byte) {
				n++
				ops, err := diffOps(bs, [][]byte{old}, s, 0)
				if err != nil {
					bad++
					return
				}
				if msg := checkOps(bs, [][]byte{old}, s, ops); msg != "" {
					bad++
					if first == "" {
						first = fmt.Sprintf("bs=%d old=%q src=%q: %s", bs, old, s, msg)
					}
				}
			})
		})
	}
	t.Logf("cases=%d bad=%d first=%s", n, bad, first)
}
