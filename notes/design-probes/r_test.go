package scratch

import (
	"bytes"
	"fmt"
	"os"
	"os/exec"
	"path/filepath"
	"strconv"
	"testing"

	"github.com/itchio/headway/state"
	"github.com/itchio/wharf/archiver"
)

func TestZipChild(t *testing.T) {
	if os.Getenv("ZC_ZIP") == "" {
		t.Skip()
	}
	zipb, _ := os.ReadFile(os.Getenv("ZC_ZIP"))
	j, _ := strconv.Atoi(os.Getenv("ZC_J"))
	w, _ := strconv.Atoi(os.Getenv("ZC_W"))
	n := 0
	_, err := archiver.ExtractZip(bytes.NewReader(zipb), int64(len(zipb)), os.Getenv("ZC_OUT"), archiver.ExtractSettings{
		Consumer: &state.Consumer{}, Concurrency: w, ResumeFrom: os.Getenv("ZC_RES"),
		OnEntryDone: func(p string) {
			n++ // racy on purpose? guarded below
			if n == j {
				os.Exit(3)
			}
		},
	})
	if err != nil {
		os.Exit(4)
	}
	os.Exit(0)
}

func TestZipResume(t *testing.T) {
	d := t.TempDir()
	src := filepath.Join(d, "src")
	m := map[string]ent{}
	for i := 0; i < 40; i++ {
		sz := 10 + i
		if i%5 == 0 {
			sz = 3*BS + i; if i == 5 { sz = 30 << 20 }
		}
		m[fmt.Sprintf("d%d/f%02d", i%3, i)] = ent{data: rnd(int64(i), sz)}
	}
	m["e"] = ent{dir: true}
	m["l"] = ent{link: "d0/f00"}
	mk(t, src, m)
	buf := new(bytes.Buffer)
	_, err := archiver.CompressZip(buf, src, &state.Consumer{})
	must(t, err)
	zp := filepath.Join(d, "a.zip")
	os.WriteFile(zp, buf.Bytes(), 0o644)
	want := readTree(t, src)
	for _, w := range []int{1, 2, 4, 8} {
		bad := 0
		var first string
		for j := 1; j <= 41; j += 3 {
			out := filepath.Join(d, "out")
			os.RemoveAll(out)
			res := filepath.Join(d, "resume")
			os.Remove(res)
			cmd := exec.Command(os.Args[0], "-test.run=TestZipChild$")
			cmd.Env = append(os.Environ(), "ZC_ZIP="+zp, "ZC_OUT="+out, "ZC_RES="+res, "ZC_J="+strconv.Itoa(j), "ZC_W="+strconv.Itoa(w))
			err := cmd.Run()
			code := 0
			if ee, ok := err.(*exec.ExitError); ok {
				code = ee.ExitCode()
			}
			rb, _ := os.ReadFile(res)
			// resume in-process
			_, err = archiver.ExtractZip(bytes.NewReader(buf.Bytes()), int64(buf.Len()), out, archiver.ExtractSettings{Consumer: &state.Consumer{}, Concurrency: w, ResumeFrom: res})
			must(t, err)
			if s := treeDiff(want, readTree(t, out)); s != "" {
				bad++
				if first == "" {
					first = fmt.Sprintf("j=%d childexit=%d resumefile=%q: %s", j, code, rb, s)
				}
			}
		}
		t.Logf("workers=%d bad=%d first=%s", w, bad, first)
	}
}
