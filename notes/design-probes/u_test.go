package scratch

import (
	"bytes"
	"context"
	"fmt"
	"os"
	"path/filepath"
	"runtime"
	"strings"
	"sync/atomic"
	"testing"
	"time"

	"github.com/itchio/headway/state"
	"github.com/itchio/wharf/archiver"
	"github.com/itchio/wharf/pwr"
)

func pwrGoroutines() int {
	buf := make([]byte, 1<<22)
	n := runtime.Stack(buf, true)
	c := 0
	for _, g := range strings.Split(string(buf[:n]), "\n\n") {
		if strings.Contains(g, "itchio/wharf/pwr.") && !strings.Contains(g, "scratch.pwrGoroutines") {
			c++
		}
	}
	return c
}

func TestValidateTermination(t *testing.T) {
	d := t.TempDir()
	dir := filepath.Join(d, "b")
	m := map[string]ent{}
	for i := 0; i < 1300; i++ {
		m[fmt.Sprintf("d%04d", i)] = ent{dir: true}
	}
	for i := 0; i < 1200; i++ {
		m[fmt.Sprintf("f%04d", i)] = ent{data: rnd(int64(i), 20)}
	}
	m["big"] = ent{data: rnd(7, 5*BS+3)}
	m["zlast"] = ent{data: rnd(8, 2*BS)}
	mk(t, dir, m)
	si := readSig(t, sigBytes(t, dir))
	zp := filepath.Join(d, "b.zip")
	fw, _ := os.Create(zp)
	_, err := archiver.CompressZip(fw, dir, &state.Consumer{})
	must(t, err)
	fw.Close()
	// partial archive: only dirs + first 600 files
	pz := filepath.Join(d, "partial.zip")
	{
		pd := filepath.Join(d, "pd")
		m2 := map[string]ent{}
		for i := 0; i < 600; i++ {
			m2[fmt.Sprintf("f%04d", i)] = m[fmt.Sprintf("f%04d", i)]
		}
		mk(t, pd, m2)
		fw, _ := os.Create(pz)
		_, err := archiver.CompressZip(fw, pd, &state.Consumer{})
		must(t, err)
		fw.Close()
	}
	damaged := filepath.Join(d, "dmg")
	type dmg struct {
		name string
		f    func(dir string)
	}
	dmgs := []dmg{
		{"none", func(dir string) {}},
		{"all dirs+files gone", func(dir string) {
			es, _ := os.ReadDir(dir)
			for _, e := range es {
				os.RemoveAll(filepath.Join(dir, e.Name()))
			}
		}},
		{"all small files flipped", func(dir string) {
			for i := 0; i < 1200; i++ {
				os.WriteFile(filepath.Join(dir, fmt.Sprintf("f%04d", i)), rnd(int64(i+5000), 20), 0o644)
			}
		}},
		{"only last file", func(dir string) { os.WriteFile(filepath.Join(dir, "zlast"), rnd(99, 2*BS), 0o644) }},
	}
	type mode struct {
		name string
		mk   func() *pwr.ValidatorContext
	}
	var calls int64
	modes := []mode{
		{"failfast", func() *pwr.ValidatorContext { return &pwr.ValidatorContext{FailFast: true} }},
		{"woundsfile", func() *pwr.ValidatorContext { return &pwr.ValidatorContext{WoundsPath: filepath.Join(d, "w.pww")} }},
		{"woundsfile-unwritable", func() *pwr.ValidatorContext { return &pwr.ValidatorContext{WoundsPath: filepath.Join(d, "nonexistent-dir", "w.pww")} }},
		{"heal", func() *pwr.ValidatorContext { return &pwr.ValidatorContext{HealPath: "archive," + zp} }},
		{"heal-partial", func() *pwr.ValidatorContext { return &pwr.ValidatorContext{HealPath: "archive," + pz} }},
		{"heal-missing-archive", func() *pwr.ValidatorContext { return &pwr.ValidatorContext{HealPath: "archive," + filepath.Join(d, "nope.zip")} }},
		{"printer", func() *pwr.ValidatorContext { return &pwr.ValidatorContext{} }},
	}
	for _, dm := range dmgs {
		for _, md := range modes {
			for _, cancelAt := range []int64{-1, 0, 1, 50, 1500} {
				os.RemoveAll(damaged)
				cp(t, dir, damaged)
				dm.f(damaged)
				ctx, cancel := context.WithCancel(context.Background())
				vctx := md.mk()
				atomic.StoreInt64(&calls, 0)
				vctx.Consumer = &state.Consumer{
					OnProgress: func(p float64) {
						if atomic.AddInt64(&calls, 1) == cancelAt {
							cancel()
						}
					},
					OnMessage: func(l, m string) {
						if atomic.AddInt64(&calls, 1) == cancelAt {
							cancel()
						}
					},
					OnProgressLabel: func(s string) {
						if atomic.AddInt64(&calls, 1) == cancelAt {
							cancel()
						}
					},
				}
				if cancelAt == 0 {
					cancel()
				}
				done := make(chan error, 1)
				start := time.Now()
				go func() { done <- vctx.Validate(ctx, damaged, si) }()
				var res string
				select {
				case err := <-done:
					res = fmt.Sprintf("err=%v", err != nil)
					if md.name == "failfast" && err == nil && dm.name != "none" {
						res += " FALSE-VALID"
					}
				case <-time.After(15 * time.Second):
					res = "HANG"
				}
				cancel()
				time.Sleep(20 * time.Millisecond)
				leaked := pwrGoroutines()
				if strings.Contains(res, "HANG") || strings.Contains(res, "FALSE") || leaked > 0 {
					t.Logf("%-24s %-22s cancelAt=%-5d %s leaked=%d calls=%d (%.2fs)", dm.name, md.name, cancelAt, res, leaked, atomic.LoadInt64(&calls), time.Since(start).Seconds())
				}
			}
		}
	}
}

var _ = bytes.Equal
