package scratch

import (
	"math/rand"
	"path/filepath"
	"sort"
	"testing"
)

func TestEfficiency(t *testing.T) {
	r := rand.New(rand.NewSource(42))
	worst := 0.0
	for it := 0; it < 60; it++ {
		size := r.Intn(12*BS) + 1
		if r.Intn(3) == 0 {
			size = (r.Intn(10) + 1) * BS + []int{-1, 0, 1}[r.Intn(3)]
		}
		old := rnd(int64(it)+100, size)
		k := r.Intn(4)
		// edits at sorted offsets
		type edit struct{ off, del int; ins []byte }
		var edits []edit
		for i := 0; i < k; i++ {
			off := r.Intn(size + 1)
			kind := r.Intn(3)
			var e edit
			e.off = off
			switch kind {
			case 0: // overwrite
				n := r.Intn(300) + 1
				if off+n > size { n = size - off }
				e.del = n
				e.ins = rnd(int64(it*10+i), n)
			case 1: // insert
				e.ins = rnd(int64(it*10+i), r.Intn(70000)+1)
			case 2: // delete
				n := r.Intn(70000) + 1
				if off+n > size { n = size - off }
				e.del = n
			}
			edits = append(edits, e)
		}
		sort.Slice(edits, func(i, j int) bool { return edits[i].off < edits[j].off })
		var nw []byte
		pos := 0
		introduced := 0
		for _, e := range edits {
			if e.off < pos { continue }
			nw = append(nw, old[pos:e.off]...)
			nw = append(nw, e.ins...)
			introduced += len(e.ins)
			pos = e.off + e.del
		}
		nw = append(nw, old[pos:]...)
		d := t.TempDir()
		od, nd := filepath.Join(d, "old"), filepath.Join(d, "new")
		mk(t, od, map[string]ent{"f": {data: old}})
		mk(t, nd, map[string]ent{"f": {data: nw}})
		_, _, dctx := diff(t, od, nd, nil)
		bound := introduced + (2*k+2)*BS
		ratio := float64(dctx.FreshBytes) / float64(bound)
		if ratio > worst { worst = ratio }
		if int(dctx.FreshBytes) > bound || dctx.FreshBytes+dctx.ReusedBytes != int64(len(nw)) {
			t.Logf("VIOL it=%d size=%d k=%d introduced=%d fresh=%d bound=%d reused=%d new=%d", it, size, k, introduced, dctx.FreshBytes, bound, dctx.ReusedBytes, len(nw))
		}
	}
	t.Logf("worst ratio fresh/bound = %.3f", worst)
}
