package scratch

import (
	"bytes"
	"encoding/gob"
	"io"
	"testing"

	"github.com/itchio/savior/seeksource"
	"github.com/itchio/wharf/pwr"
	"github.com/itchio/wharf/wire"
	"github.com/pkg/errors"
	"pgregory.net/rapid"
)

var allowEnd = false

func TestWireProp(t *testing.T) {
	nck := 0
	ncases := 0
	rapid.Check(t, func(t *rapid.T) {
		algo := rapid.SampledFrom([]pwr.CompressionAlgorithm{pwr.CompressionAlgorithm_NONE, pwr.CompressionAlgorithm_GZIP, pwr.CompressionAlgorithm_BROTLI}).Draw(t, "algo")
		q := int32(rapid.IntRange(1, 9).Draw(t, "q"))
		comp := &pwr.CompressionSettings{Algorithm: algo, Quality: q}
		n := rapid.IntRange(0, 40).Draw(t, "n")
		seed := rapid.Int64().Draw(t, "seed")
		pool := rnd(seed, 1<<20)
		var msgs [][]byte
		for i := 0; i < n; i++ {
			sz := rapid.OneOf(rapid.IntRange(0, 50), rapid.SampledFrom([]int{32*1024 - 8, 32*1024 - 1, 32 * 1024, 32*1024 + 1, 65536, 65537, 200000}), rapid.IntRange(0, 300000)).Draw(t, "sz")
			compressible := rapid.Bool().Draw(t, "compressible")
			var b []byte
			if compressible {
				b = bytes.Repeat([]byte{byte(i)}, sz)
			} else {
				off := rapid.IntRange(0, len(pool)-sz).Draw(t, "off")
				b = pool[off : off+sz]
			}
			msgs = append(msgs, b)
		}
		buf := new(bytes.Buffer)
		raw := wire.NewWriteContext(buf)
		if err := raw.WriteMagic(pwr.PatchMagic); err != nil {
			t.Fatal(err)
		}
		if err := raw.WriteMessage(&pwr.PatchHeader{Compression: comp}); err != nil {
			t.Fatal(err)
		}
		cw, err := pwr.CompressWire(raw, comp)
		if err != nil {
			t.Fatal(err)
		}
		for _, m := range msgs {
			if err := cw.WriteMessage(&pwr.SyncOp{Type: pwr.SyncOp_DATA, Data: m}); err != nil {
				t.Fatal(err)
			}
		}
		if err := cw.Close(); err != nil {
			t.Fatal(err)
		}

		open := func() *wire.ReadContext {
			src := seeksource.FromBytes(buf.Bytes())
			if _, err := src.Resume(nil); err != nil {
				t.Fatal(err)
			}
			rr := wire.NewReadContext(src)
			if err := rr.ExpectMagic(pwr.PatchMagic); err != nil {
				t.Fatal(err)
			}
			h := &pwr.PatchHeader{}
			if err := rr.ReadMessage(h); err != nil {
				t.Fatal(err)
			}
			dr, err := pwr.DecompressWire(rr, h.Compression)
			if err != nil {
				t.Fatal(err)
			}
			return dr
		}
		type ck struct {
			next int
			data []byte
		}
		var cks []ck
		r := open()
		op := &pwr.SyncOp{}
		for i := 0; ; i++ {
			if rapid.IntRange(0, 2).Draw(t, "save") > 0 {
				r.WantSave()
			}
			if c := r.PopCheckpoint(); c != nil && (i < len(msgs) || allowEnd) {
				b := new(bytes.Buffer)
				if err := gob.NewEncoder(b).Encode(c); err != nil {
					t.Fatal(err)
				}
				cks = append(cks, ck{i, b.Bytes()})
			}
			err := r.ReadMessage(op)
			if err != nil {
				if errors.Cause(err) == io.EOF && i == len(msgs) {
					break
				}
				t.Fatalf("read %d/%d: %v", i, len(msgs), err)
			}
			if !bytes.Equal(op.Data, msgs[i]) {
				t.Fatalf("msg %d differs", i)
			}
		}
		ncases++
		for _, c := range cks {
			nck++
			mc := &wire.MessageReaderCheckpoint{}
			if err := gob.NewDecoder(bytes.NewReader(c.data)).Decode(mc); err != nil {
				t.Fatal(err)
			}
			r2 := open()
			if err := r2.Resume(mc); err != nil {
				t.Fatalf("resume: %v", err)
			}
			for i := c.next; ; i++ {
				err := r2.ReadMessage(op)
				if err != nil {
					if errors.Cause(err) == io.EOF && i == len(msgs) {
						break
					}
					t.Fatalf("resumed read %d/%d (from %d): %v", i, len(msgs), c.next, err)
				}
				if !bytes.Equal(op.Data, msgs[i]) {
					t.Fatalf("resumed msg %d differs (from %d)", i, c.next)
				}
			}
		}
	})
	t.Logf("cases=%d checkpoints=%d", ncases, nck)
}
