package scratch

import (
	"os"
	"path/filepath"
	"testing"

	"github.com/itchio/wharf/pwr"
)

func TestEmptyNewGzip(t *testing.T) {
	for _, oldEmpty := range []bool{true, false} {
		for _, algo := range []pwr.CompressionAlgorithm{0, 1, 2} {
			for _, q := range []int32{0, 1, 6, 9} {
				d := t.TempDir()
				od, nd := filepath.Join(d, "old"), filepath.Join(d, "new")
				if oldEmpty {
					os.MkdirAll(od, 0o755)
				} else {
					mk(t, od, map[string]ent{"x": {data: rnd(1, 1000)}})
				}
				os.MkdirAll(nd, 0o755)
				comp := &pwr.CompressionSettings{Algorithm: algo, Quality: q}
				patch, sig, _ := diff(t, od, nd, comp)
				err := applyFresh(t, patch, od, filepath.Join(d, "out"), nil)
				_, oerr := optimize(t, patch, od, nd, comp, 0)
				var serr error
				func() {
					defer func() {
						if r := recover(); r != nil {
							serr = r.(error)
						}
					}()
					readSig(fatalToPanic{t}, sig)
				}()
				if err != nil || oerr != nil || serr != nil {
					t.Logf("oldEmpty=%v %v q%d: apply err=%v | optimize err=%v | readsig err=%v", oldEmpty, algo, q, err, oerr, serr)
				}
			}
		}
	}
}

type fatalToPanic struct{ *testing.T }

func (f fatalToPanic) Fatalf(format string, args ...any) { panic(os.ErrInvalid) }
