package scratch

import (
	"bytes"
	"context"
	"crypto/md5"
	"os"
	"path/filepath"
	"testing"

	"github.com/golang/protobuf/proto"
	"github.com/itchio/headway/state"
	"github.com/itchio/lake/pools/fspool"
	"github.com/itchio/wharf/pwr"
	"pgregory.net/rapid"
)

func refWeak(b []byte) uint32 {
	var a, s uint32
	n := uint32(len(b))
	for i, x := range b {
		a += uint32(x)
		s += (n - uint32(i)) * uint32(x)
	}
	return (a & 0xffff) | ((s & 0xffff) << 16)
}

func TestSigProp(t *testing.T) {
	rapid.Check(t, func(t *rapid.T) {
		old := genOld(t)
		nw := genNew(t, old, true)
		d, _ := os.MkdirTemp("", "sig")
		defer os.RemoveAll(d)
		od, nd := filepath.Join(d, "old"), filepath.Join(d, "new")
		old.write(t, od)
		nw.write(t, nd)
		comp := &pwr.CompressionSettings{Algorithm: rapid.SampledFrom([]pwr.CompressionAlgorithm{0, 1, 2}).Draw(t, "algo"), Quality: int32(rapid.IntRange(1, 9).Draw(t, "q"))}
		_, sig, _ := diff(t, od, nd, comp)
		si := readSig(t, sig)
		c := walk(t, nd)
		if !proto.Equal(si.Container, c) {
			t.Fatalf("container differs")
		}
		hs, err := pwr.ComputeSignature(context.Background(), c, fspool.New(c, nd), &state.Consumer{})
		if err != nil {
			t.Fatal(err)
		}
		if len(hs) != len(si.Hashes) {
			t.Fatalf("hash count %d vs %d", len(hs), len(si.Hashes))
		}
		// reference
		k := 0
		for fi, f := range c.Files {
			data := nw[f.Path].Data
			nb := (len(data) + BS - 1) / BS
			if nb == 0 {
				nb = 1
			}
			for b := 0; b < nb; b++ {
				lo, hi := b*BS, (b+1)*BS
				if hi > len(data) {
					hi = len(data)
				}
				if lo > len(data) {
					lo = len(data)
				}
				blk := data[lo:hi]
				sum := md5.Sum(blk)
				ss := int32(0)
				if len(blk) < BS {
					ss = int32(len(blk))
				}
				for name, h := range map[string]interface{}{"read": si.Hashes[k], "computed": hs[k]} {
					_ = name
					_ = h
				}
				for _, h := range []struct {
					n string
					h interface{}
				}{} {
					_ = h
				}
				a, bb := si.Hashes[k], hs[k]
				if a.FileIndex != int64(fi) || a.BlockIndex != int64(b) || a.WeakHash != refWeak(blk) || !bytes.Equal(a.StrongHash, sum[:]) || a.ShortSize != ss {
					t.Fatalf("read sig hash %d wrong: %+v (file %s block %d len %d)", k, a, f.Path, b, len(blk))
				}
				if bb.FileIndex != int64(fi) || bb.BlockIndex != int64(b) || bb.WeakHash != refWeak(blk) || !bytes.Equal(bb.StrongHash, sum[:]) || bb.ShortSize != ss {
					t.Fatalf("computed sig hash %d wrong: %+v", k, bb)
				}
				k++
			}
		}
		if k != len(hs) {
			t.Fatalf("count")
		}
		if err := pwr.AssertValid(nd, si); err != nil {
			t.Fatalf("assertvalid: %v", err)
		}
	})
}
