package scratch

import (
	"bytes"
	"fmt"
	"path/filepath"
	"testing"

	"github.com/itchio/headway/state"
	"github.com/itchio/lake/pools/fspool"
	"github.com/itchio/savior/seeksource"
	"github.com/itchio/wharf/pwr"
	"github.com/itchio/wharf/pwr/bowl"
	"github.com/itchio/wharf/pwr/patcher"
	"github.com/itchio/wharf/pwr/rediff"
)

func TestSkipMagic(t *testing.T) {
	d := t.TempDir()
	old, nw := filepath.Join(d, "old"), filepath.Join(d, "new")
	om := map[string]ent{}
	nm := map[string]ent{}
	for i := 0; i < 2060; i++ {
		name := fmt.Sprintf("f%05d", i)
		om[name] = ent{data: []byte(fmt.Sprintf("file %d", i))}
		nm[name] = om[name]
	}
	big := rnd(1, 3*BS+17)
	om["f02049"] = ent{data: big}
	mod := append([]byte{}, big...)
	mod[70000] ^= 1
	nm["f02049"] = ent{data: mod}
	mk(t, old, om)
	mk(t, nw, nm)
	patch, _, _ := diff(t, old, nw, nil)
	rc, err := rediff.NewContext(rediff.Params{PatchReader: seeksource.FromBytes(patch), Consumer: &state.Consumer{}, Compression: &pwr.CompressionSettings{Algorithm: pwr.CompressionAlgorithm_NONE}})
	must(t, err)
	t.Logf("mappings: %d -> %+v", len(rc.GetDiffMappings()), rc.GetDiffMappings()[2049])
	opt := new(bytes.Buffer)
	must(t, rc.Optimize(rediff.OptimizeParams{TargetPool: fspool.New(rc.GetTargetContainer(), old), SourcePool: fspool.New(rc.GetSourceContainer(), nw), PatchWriter: opt}))

	for _, wl := range []map[int64]bool{{}, {5: true}, {2049: true}, nil} {
		p, err := patcher.New(seeksource.FromBytes(opt.Bytes()), &state.Consumer{})
		must(t, err)
		p.SetSourceIndexWhitelist(wl)
		tp := fspool.New(p.GetTargetContainer(), old)
		out := t.TempDir()
		b, err := bowl.NewFreshBowl(bowl.FreshBowlParams{SourceContainer: p.GetSourceContainer(), TargetContainer: p.GetTargetContainer(), TargetPool: tp, OutputFolder: out})
		must(t, err)
		err = p.Resume(nil, tp, b)
		t.Logf("whitelist=%v err=%v touched=%d", wl, err, p.GetTouchedFiles())
	}
}
