package scratch

import (
	"context"
	"fmt"
	"os"
	"path/filepath"
	"sort"
	"testing"

	"github.com/itchio/headway/state"
	"github.com/itchio/wharf/pwr"
	"pgregory.net/rapid"
)

// apply damage to model tree (and disk is rewritten from the model into a fresh dir)
func genDamage(t *rapid.T, tr tree) tree {
	d := tr.clone()
	n := rapid.IntRange(0, 4).Draw(t, "ndmg")
	for i := 0; i < n; i++ {
		ps := d.paths()
		if len(ps) == 0 {
			break
		}
		p := rapid.SampledFrom(ps).Draw(t, "victim")
		nd := d[p]
		if nd == nil {
			continue
		}
		switch nd.Kind {
		case "f":
			data := append([]byte{}, nd.Data...)
			switch rapid.IntRange(0, 7).Draw(t, "fd") {
			case 0: // flip
				if len(data) > 0 {
					var off int
					nb := (len(data) + BS - 1) / BS
					b := rapid.IntRange(0, nb-1).Draw(t, "blk")
					switch rapid.IntRange(0, 3).Draw(t, "where") {
					case 0:
						off = b * BS
					case 1:
						off = (b+1)*BS - 1
					case 2:
						off = len(data) - 1
					default:
						off = rapid.IntRange(0, len(data)-1).Draw(t, "off")
					}
					if off >= len(data) {
						off = len(data) - 1
					}
					data[off] ^= 0x10
				}
			case 1: // truncate
				var nl int
				switch rapid.IntRange(0, 2).Draw(t, "tw") {
				case 0:
					nl = 0
				case 1:
					nb := len(data) / BS
					nl = rapid.IntRange(0, nb).Draw(t, "tb")*BS + rapid.IntRange(-1, 1).Draw(t, "td")
				default:
					nl = rapid.IntRange(0, len(data)).Draw(t, "tl")
				}
				if nl < 0 {
					nl = 0
				}
				if nl > len(data) {
					nl = len(data)
				}
				data = data[:nl]
			case 2: // extend
				var ext int
				switch rapid.IntRange(0, 2).Draw(t, "ew") {
				case 0:
					ext = 1
				case 1:
					ext = BS - len(data)%BS + rapid.IntRange(-1, 1).Draw(t, "ed")
				default:
					ext = rapid.IntRange(1, 3*BS).Draw(t, "el")
				}
				if ext < 1 {
					ext = 1
				}
				data = append(data, rnd(77, ext)...)
			case 3: // delete
				d.remove(p)
				continue
			case 4: // -> dir (non-empty)
				d.remove(p)
				d.add(p+"/x", &node{Kind: "f", Data: []byte("x")})
				continue
			case 5: // -> symlink
				d[p] = &node{Kind: "l", Dest: "a"}
				continue
			default:
				// same-content rewrite (no-op)
			}
			d[p] = &node{Kind: "f", Data: data}
		case "l":
			switch rapid.IntRange(0, 3).Draw(t, "ld") {
			case 0:
				d[p] = &node{Kind: "l", Dest: nd.Dest + "x"}
			case 1:
				d.remove(p)
			case 2:
				d[p] = &node{Kind: "f", Data: []byte("was link")}
			case 3:
				d.remove(p)
				d.add(p+"/x", &node{Kind: "f", Data: []byte("x")})
			}
		case "d":
			// only leaf dirs to avoid hidden subtrees (F13)
			leaf := true
			for _, q := range ps {
				if len(q) > len(p) && q[:len(p)+1] == p+"/" {
					leaf = false
				}
			}
			if !leaf {
				continue
			}
			switch rapid.IntRange(0, 2).Draw(t, "dd") {
			case 0:
				d.remove(p)
			case 1:
				d[p] = &node{Kind: "f", Data: []byte("was dir")}
			case 2:
				d[p] = &node{Kind: "l", Dest: "nowhere"}
			}
		}
	}
	return d
}

func TestWoundsProp(t *testing.T) {
	nDev, nCases := 0, 0
	rapid.Check(t, func(t *rapid.T) {
		signedT := genNew(t, genOld(t), true)
		dmg := genDamage(t, signedT)
		d, _ := os.MkdirTemp("", "wd")
		defer os.RemoveAll(d)
		sd, dd := filepath.Join(d, "signed"), filepath.Join(d, "dmg")
		signedT.write(t, sd)
		dmg.write(t, dd)
		si := readSig(t, sigBytes(t, sd))
		c := si.Container
		// hidden subtree check: if some signed path has an ancestor that is a non-dir in dmg => skip (F13)
		for _, p := range signedT.paths() {
			for q, n := range dmg {
				if len(p) > len(q) && p[:len(q)+1] == q+"/" && n.Kind != "d" {
					t.Skip("hidden subtree (F13)")
				}
			}
		}
		// expected deviations
		deviates := false
		type fdev struct {
			diff             []int
			shorter, longer  bool
			missingOrKind    bool
		}
		fdevs := map[int]*fdev{}
		for i, f := range c.Files {
			want := signedT[f.Path].Data
			got, ok := dmg[f.Path]
			fd := &fdev{}
			if !ok || got.Kind != "f" {
				fd.missingOrKind = true
				deviates = true
			} else {
				g := got.Data
				for o := 0; o < len(want) && o < len(g); o++ {
					if want[o] != g[o] {
						fd.diff = append(fd.diff, o)
					}
				}
				if len(g) < len(want) {
					fd.shorter = true
				}
				if len(g) > len(want) {
					fd.longer = true
				}
				if len(fd.diff) > 0 || fd.shorter || fd.longer {
					deviates = true
				}
			}
			fdevs[i] = fd
		}
		for _, dr := range c.Dirs {
			if g, ok := dmg[dr.Path]; !ok || g.Kind != "d" {
				deviates = true
			}
		}
		for _, l := range c.Symlinks {
			if g, ok := dmg[l.Path]; !ok || g.Kind != "l" || g.Dest != l.Dest {
				deviates = true
			}
		}
		nCases++
		if deviates {
			nDev++
		}
		wp := filepath.Join(d, "w.pww")
		vctx := &pwr.ValidatorContext{WoundsPath: wp, Consumer: &state.Consumer{}}
		err := vctx.Validate(context.Background(), dd, si)
		ws := readWounds(t, wp)
		ferr := pwr.AssertValid(dd, si)
		if deviates {
			if ferr == nil {
				t.Fatalf("failfast nil on deviating dir")
			}
			if err == nil && len(ws) == 0 {
				t.Fatalf("no wounds on deviating dir")
			}
		} else {
			if ferr != nil || err != nil || len(ws) != 0 {
				t.Fatalf("identical dir: ferr=%v err=%v wounds=%d", ferr, err, len(ws))
			}
		}
		if err == nil {
			byFile := map[int][][2]int64{}
			for _, w := range ws {
				switch w.Kind {
				case pwr.WoundKind_FILE:
					if w.Index < 0 || int(w.Index) >= len(c.Files) {
						t.Fatalf("bad file index")
					}
					if w.Start < 0 || w.Start > w.End {
						if w.Start > w.End {
							continue // F5 known
						}
						t.Fatalf("bad range %d..%d", w.Start, w.End)
					}
					byFile[int(w.Index)] = append(byFile[int(w.Index)], [2]int64{w.Start, w.End})
				case pwr.WoundKind_DIR:
					if w.Index < 0 || int(w.Index) >= len(c.Dirs) {
						t.Fatalf("bad dir index")
					}
				case pwr.WoundKind_SYMLINK:
					if w.Index < 0 || int(w.Index) >= len(c.Symlinks) {
						t.Fatalf("bad symlink index")
					}
				default:
					t.Fatalf("kind %v in wounds file", w.Kind)
				}
			}
			for i, fd := range fdevs {
				rs := byFile[i]
				sort.Slice(rs, func(a, b int) bool { return rs[a][0] < rs[b][0] })
				for _, o := range fd.diff {
					cov := false
					for _, r := range rs {
						if int64(o) >= r[0] && int64(o) < r[1] {
							cov = true
						}
					}
					if !cov {
						t.Fatalf("file %d offset %d differs but not covered by %v", i, o, rs)
					}
				}
				if (fd.shorter || fd.longer || fd.missingOrKind) && len(rs) == 0 {
					// may have only the F5-ill-formed wound; count raw
					raw := 0
					for _, w := range ws {
						if w.Kind == pwr.WoundKind_FILE && int(w.Index) == i {
							raw++
						}
					}
					if raw == 0 {
						t.Fatalf("file %d shorter/longer/missing but no wound", i)
					}
				}
			}
		}
	})
	t.Logf("cases=%d deviating=%d", nCases, nDev)
}

var _ = fmt.Sprintf
