package scratch

import (
	"bytes"
	"context"
	"fmt"
	"os"
	"path/filepath"
	"runtime/debug"
	"strings"
	"testing"
	"time"

	"github.com/golang/protobuf/proto"
	"github.com/itchio/headway/state"
	"github.com/itchio/lake/pools/fspool"
	"github.com/itchio/lake/tlc"
	"github.com/itchio/savior/seeksource"
	"github.com/itchio/wharf/bsdiff"
	"github.com/itchio/wharf/pwr"
	"github.com/itchio/wharf/pwr/bowl"
	"github.com/itchio/wharf/pwr/overlay"
	"github.com/itchio/wharf/pwr/patcher"
	"github.com/itchio/wharf/pwr/rediff"
	"github.com/itchio/wharf/wire"
	"pgregory.net/rapid"
)

type dpatch struct {
	header *pwr.PatchHeader
	tc, sc *tlc.Container
	msgs   []proto.Message // after containers
}

func decodePatch(t TB, patch []byte) *dpatch {
	src := seeksource.FromBytes(patch)
	src.Resume(nil)
	raw := wire.NewReadContext(src)
	must(t, raw.ExpectMagic(pwr.PatchMagic))
	d := &dpatch{header: &pwr.PatchHeader{}, tc: &tlc.Container{}, sc: &tlc.Container{}}
	must(t, raw.ReadMessage(d.header))
	r, err := pwr.DecompressWire(raw, d.header.Compression)
	must(t, err)
	must(t, r.ReadMessage(d.tc))
	must(t, r.ReadMessage(d.sc))
	for range d.sc.Files {
		sh := &pwr.SyncHeader{}
		must(t, r.ReadMessage(sh))
		d.msgs = append(d.msgs, sh)
		if sh.Type == pwr.SyncHeader_BSDIFF {
			bh := &pwr.BsdiffHeader{}
			must(t, r.ReadMessage(bh))
			d.msgs = append(d.msgs, bh)
			for {
				c := &bsdiff.Control{}
				must(t, r.ReadMessage(c))
				d.msgs = append(d.msgs, c)
				if c.Eof {
					break
				}
			}
			op := &pwr.SyncOp{}
			must(t, r.ReadMessage(op))
			d.msgs = append(d.msgs, op)
		} else {
			for {
				op := &pwr.SyncOp{}
				must(t, r.ReadMessage(op))
				d.msgs = append(d.msgs, op)
				if op.Type == pwr.SyncOp_HEY_YOU_DID_IT {
					break
				}
			}
		}
	}
	return d
}

func (d *dpatch) encode(t TB, msgs []proto.Message, comp *pwr.CompressionSettings) []byte {
	buf := new(bytes.Buffer)
	raw := wire.NewWriteContext(buf)
	must(t, raw.WriteMagic(pwr.PatchMagic))
	must(t, raw.WriteMessage(&pwr.PatchHeader{Compression: comp}))
	w, err := pwr.CompressWire(raw, comp)
	must(t, err)
	must(t, w.WriteMessage(d.tc))
	must(t, w.WriteMessage(d.sc))
	for _, m := range msgs {
		must(t, w.WriteMessage(m))
	}
	must(t, w.Close())
	return buf.Bytes()
}

var hostile = []int64{-1, 0, 1, 2, 3, 2049, 1 << 31, 1 << 40, 1 << 62, -1 << 63, -2, 65536, 65535}

func mutateMsgs(t *rapid.T, msgs []proto.Message, nT, nS int) []proto.Message {
	out := make([]proto.Message, len(msgs))
	for i, m := range msgs {
		out[i] = proto.Clone(m)
	}
	n := rapid.IntRange(1, 3).Draw(t, "nmut")
	for k := 0; k < n && len(out) > 0; k++ {
		i := rapid.IntRange(0, len(out)-1).Draw(t, "mi")
		h := func(l string) int64 {
			return rapid.OneOf(rapid.SampledFrom(hostile), rapid.Int64Range(int64(-2), int64(nT+2)), rapid.Int64Range(int64(-2), int64(nS+2))).Draw(t, l)
		}
		switch rapid.IntRange(0, 5).Draw(t, "mk") {
		case 0: // field mutation
			switch m := out[i].(type) {
			case *pwr.SyncHeader:
				if rapid.Bool().Draw(t, "b") {
					m.FileIndex = h("v")
				} else {
					m.Type = pwr.SyncHeader_Type(h("v"))
				}
			case *pwr.SyncOp:
				switch rapid.IntRange(0, 4).Draw(t, "f") {
				case 0:
					m.Type = pwr.SyncOp_Type(h("v"))
				case 1:
					m.FileIndex = h("v")
				case 2:
					m.BlockIndex = h("v")
				case 3:
					m.BlockSpan = h("v")
				case 4:
					m.Data = rnd(3, rapid.IntRange(0, 100).Draw(t, "dl"))
				}
			case *pwr.BsdiffHeader:
				m.TargetIndex = h("v")
			case *bsdiff.Control:
				switch rapid.IntRange(0, 3).Draw(t, "f") {
				case 0:
					m.Seek = h("v")
				case 1:
					m.Add = rnd(4, rapid.IntRange(0, 200000).Draw(t, "al"))
				case 2:
					m.Copy = rnd(5, rapid.IntRange(0, 1000).Draw(t, "cl"))
				case 3:
					m.Eof = !m.Eof
				}
			}
		case 1: // drop
			out = append(out[:i], out[i+1:]...)
		case 2: // dup
			out = append(out[:i+1], out[i:]...)
		case 3: // swap with neighbour
			if i+1 < len(out) {
				out[i], out[i+1] = out[i+1], out[i]
			}
		case 4: // truncate list
			out = out[:i]
		case 5: // replace by message of other type
			switch rapid.IntRange(0, 3).Draw(t, "rt") {
			case 0:
				out[i] = &pwr.SyncOp{Type: pwr.SyncOp_HEY_YOU_DID_IT}
			case 1:
				out[i] = &bsdiff.Control{Eof: true}
			case 2:
				out[i] = &pwr.BsdiffHeader{TargetIndex: h("v")}
			case 3:
				out[i] = &pwr.SyncHeader{FileIndex: h("v"), Type: pwr.SyncHeader_BSDIFF}
			}
		}
	}
	return out
}

func guarded(f func() error) (res string) {
	done := make(chan string, 1)
	go func() {
		defer func() {
			if r := recover(); r != nil {
				st := string(debug.Stack())
				// find first wharf/lake frame
				site := ""
				for _, l := range strings.Split(st, "\n") {
					if strings.Contains(l, ".go:") && (strings.Contains(l, "/repo/") || strings.Contains(l, "itchio/")) && !strings.Contains(l, "scratch") {
						site = strings.TrimSpace(l)
						break
					}
				}
				done <- fmt.Sprintf("PANIC %v @ %s", r, site)
			}
		}()
		err := f()
		if err != nil {
			done <- "err"
		} else {
			done <- "ok"
		}
	}()
	select {
	case r := <-done:
		return r
	case <-time.After(20 * time.Second):
		return "HANG"
	}
}

func TestFuzzPatchStructured(t *testing.T) {
	sites := map[string]int{}
	outcomes := map[string]int{}
	rapid.Check(t, func(t *rapid.T) {
		old := genOld(t)
		nw := genNew(t, old, false)
		for p, n := range nw {
			if o, ok := old[p]; ok && o.Kind != n.Kind {
				t.Skip("kind")
			}
		}
		d, _ := os.MkdirTemp("", "fz")
		defer os.RemoveAll(d)
		od, nd := filepath.Join(d, "old"), filepath.Join(d, "new")
		old.write(t, od)
		nw.write(t, nd)
		none := &pwr.CompressionSettings{Algorithm: pwr.CompressionAlgorithm_NONE}
		patch, _, _ := diff(t, od, nd, none)
		if rapid.Bool().Draw(t, "opt") {
			var err error
			patch, err = optimize(t, patch, od, nd, none, 1)
			if err != nil {
				t.Skip("optimize failed")
			}
		}
		dp := decodePatch(t, patch)
		mm := mutateMsgs(t, dp.msgs, len(dp.tc.Files), len(dp.sc.Files))
		mp := dp.encode(t, mm, none)
		for _, target := range []string{"fresh", "overlay", "rediff"} {
			r := guarded(func() error {
				switch target {
				case "fresh":
					return applyFresh(t, mp, od, filepath.Join(d, "out"), nil)
				case "overlay":
					w := filepath.Join(d, "work")
					old.write(t, w)
					return applyInPlace(t, mp, w, filepath.Join(d, "stage"))
				default:
					rc, err := rediff.NewContext(rediff.Params{PatchReader: seeksource.FromBytes(mp), Consumer: &state.Consumer{}, Compression: none})
					if err != nil {
						return err
					}
					return rc.Optimize(rediff.OptimizeParams{TargetPool: fspool.New(dp.tc, od), SourcePool: fspool.New(dp.sc, nd), PatchWriter: new(bytes.Buffer)})
				}
			})
			outcomes[target+":"+strings.SplitN(r, " ", 2)[0]]++
			if strings.HasPrefix(r, "PANIC") || r == "HANG" {
				sites[target+" "+r]++
			}
		}
	})
	t.Logf("outcomes=%v", outcomes)
	for s, n := range sites {
		t.Logf("%5d  %s", n, s)
	}
}

var _ = context.Background
var _ = bowl.NewDryBowl
var _ = patcher.New
var _ = overlay.OverlayMagic
