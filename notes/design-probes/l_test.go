package scratch

import (
	"bytes"
	"encoding/gob"
	"fmt"
	"os"
	"path/filepath"
	"testing"

	"github.com/itchio/headway/state"
	"github.com/itchio/lake"
	"github.com/itchio/lake/pools/fspool"
	"github.com/itchio/savior/seeksource"
	"github.com/itchio/wharf/pwr"
	"github.com/itchio/wharf/pwr/bowl"
	"github.com/itchio/wharf/pwr/patcher"
	"github.com/itchio/wharf/pwr/rediff"
	"github.com/pkg/errors"
)

type sc struct {
	should func() bool
	save   func(c *patcher.Checkpoint) (patcher.AfterSaveAction, error)
}

func (s *sc) ShouldSave() bool { return s.should() }
func (s *sc) Save(c *patcher.Checkpoint) (patcher.AfterSaveAction, error) { return s.save(c) }

func encodeCk(t TB, c *patcher.Checkpoint) []byte {
	b := new(bytes.Buffer)
	must(t, gob.NewEncoder(b).Encode(c))
	return b.Bytes()
}
func decodeCk(t TB, b []byte) *patcher.Checkpoint {
	c := &patcher.Checkpoint{}
	must(t, gob.NewDecoder(bytes.NewReader(b)).Decode(c))
	return c
}

// session: new patcher+bowl; resume from ck (may be nil); stop at the stopAt-th Save call of this session (1-based; 0 = never). returns all serialized checkpoints seen and whether finished.
func session(t TB, patch []byte, mode string, oldDir, outDir, stage string, ck []byte, stopAt int) (cks [][]byte, finished bool, err error) {
	p, err := patcher.New(seeksource.FromBytes(patch), &state.Consumer{})
	if err != nil {
		return nil, false, err
	}
	n := 0
	p.SetSaveConsumer(&sc{
		should: func() bool { return true },
		save: func(c *patcher.Checkpoint) (patcher.AfterSaveAction, error) {
			n++
			cks = append(cks, encodeCk(t, c))
			if n == stopAt {
				return patcher.AfterSaveStop, nil
			}
			return patcher.AfterSaveContinue, nil
		},
	})
	var tp lake.Pool
	var b bowl.Bowl
	if mode == "fresh" {
		tp = fspool.New(p.GetTargetContainer(), oldDir)
		b, err = bowl.NewFreshBowl(bowl.FreshBowlParams{SourceContainer: p.GetSourceContainer(), TargetContainer: p.GetTargetContainer(), TargetPool: tp, OutputFolder: outDir})
	} else {
		tp = fspool.New(p.GetTargetContainer(), outDir)
		b, err = bowl.NewOverlayBowl(bowl.OverlayBowlParams{SourceContainer: p.GetSourceContainer(), TargetContainer: p.GetTargetContainer(), StageFolder: stage, OutputFolder: outDir, Consumer: &state.Consumer{}})
	}
	if err != nil {
		return nil, false, err
	}
	defer b.Close()
	var c *patcher.Checkpoint
	if ck != nil {
		c = decodeCk(t, ck)
	}
	err = p.Resume(c, tp, b)
	if errors.Cause(err) == patcher.ErrStop {
		return cks, false, nil
	}
	if err != nil {
		return cks, false, err
	}
	return cks, true, b.Commit()
}

func TestResume(t *testing.T) {
	d := t.TempDir()
	old, nw := filepath.Join(d, "old"), filepath.Join(d, "new")
	a := rnd(1, 6*BS+100)
	b := rnd(2, 3*BS)
	c := rnd(3, 2*BS+7)
	mk(t, old, map[string]ent{"a": {data: a}, "b": {data: b}, "c": {data: c}, "gone": {data: rnd(9, 100)}, "l": {link: "a"}})
	a2 := append([]byte{}, a...)
	for i := 0; i < len(a2); i += 2*BS - 13 {
		a2[i] ^= 1
	}
	a2 = append(a2[:3*BS+5], append(rnd(7, 500), a2[3*BS+5:]...)...)
	n1 := append(append(append([]byte{}, b[BS:2*BS]...), rnd(8, 3*BS+3)...), c[:BS]...)
	mk(t, nw, map[string]ent{"a": {data: a2}, "b2": {data: b}, "c": {data: c}, "n1": {data: n1}, "c3": {data: c}, "e": {data: nil}, "l": {link: "b2"}})

	for _, algo := range []pwr.CompressionAlgorithm{pwr.CompressionAlgorithm_NONE, pwr.CompressionAlgorithm_GZIP, pwr.CompressionAlgorithm_BROTLI} {
		comp := &pwr.CompressionSettings{Algorithm: algo, Quality: 1}
		plain, _, _ := diff(t, old, nw, comp)
		rc, err := rediff.NewContext(rediff.Params{PatchReader: seeksource.FromBytes(plain), Consumer: &state.Consumer{}, Compression: comp, Partitions: 2})
		must(t, err)
		optb := new(bytes.Buffer)
		must(t, rc.Optimize(rediff.OptimizeParams{TargetPool: fspool.New(rc.GetTargetContainer(), old), SourcePool: fspool.New(rc.GetSourceContainer(), nw), PatchWriter: optb}))
		for pname, patch := range map[string][]byte{"plain": plain, "opt": optb.Bytes()} {
			for _, mode := range []string{"fresh", "overlay"} {
				// uninterrupted run to count checkpoints
				w := filepath.Join(d, "w")
				os.RemoveAll(w)
				st := filepath.Join(d, "st")
				os.RemoveAll(st)
				if mode == "overlay" {
					mk(t, w, nil)
					cp(t, old, w)
				}
				cks, fin, err := session(t, patch, mode, old, w, st, nil, 0)
				must(t, err)
				if !fin {
					t.Fatal("not finished")
				}
				if s := same(t, nw, w); s != "" {
					t.Fatalf("uninterrupted differs: %s", s)
				}
				N := len(cks)
				fails := 0
				tried := 0
				for k := 1; k <= N; k++ {
					for _, lag := range []int{0, 1, 3} {
						if k+lag > N {
							continue
						}
						tried++
						os.RemoveAll(w)
						os.RemoveAll(st)
						if mode == "overlay" {
							cp(t, old, w)
						}
						cks2, fin, err := session(t, patch, mode, old, w, st, nil, k+lag)
						must(t, err)
						if fin {
							t.Fatal("finished early")
						}
						ck := cks2[k-1]
						_, fin, err = session(t, patch, mode, old, w, st, ck, 0)
						if err != nil || !fin {
							fails++
							t.Logf("%v %s %s k=%d lag=%d: err=%v fin=%v", algo, pname, mode, k, lag, err, fin)
							continue
						}
						if s := same(t, nw, w); s != "" {
							fails++
							t.Logf("%v %s %s k=%d lag=%d: differs %s", algo, pname, mode, k, lag, s)
						}
					}
				}
				t.Logf("%v %s %s: checkpoints=%d tried=%d fails=%d", algo, pname, mode, N, tried, fails)
			}
		}
	}
}

func cp(t TB, src, dst string) {
	must(t, filepath.Walk(src, func(p string, info os.FileInfo, err error) error {
		rel, _ := filepath.Rel(src, p)
		q := filepath.Join(dst, rel)
		if info.IsDir() {
			return os.MkdirAll(q, 0o755)
		}
		if info.Mode()&os.ModeSymlink != 0 {
			l, _ := os.Readlink(p)
			return os.Symlink(l, q)
		}
		b, _ := os.ReadFile(p)
		return os.WriteFile(q, b, 0o644)
	}))
}

var _ = fmt.Sprintf
