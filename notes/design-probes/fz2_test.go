package scratch

import (
	"bytes"
	"context"
	"os"
	"path/filepath"
	"strings"
	"testing"

	"github.com/itchio/headway/state"
	"github.com/itchio/lake/pools/fspool"
	"github.com/itchio/savior/seeksource"
	"github.com/itchio/wharf/pwr"
	"github.com/itchio/wharf/pwr/overlay"
	"github.com/itchio/wharf/pwr/rediff"
)

func TestTruncations(t *testing.T) {
	d := t.TempDir()
	od, nd := filepath.Join(d, "old"), filepath.Join(d, "new")
	a := rnd(1, 2*BS+100)
	mk(t, od, map[string]ent{"a": {data: a}, "b": {data: rnd(2, 300)}, "e": {data: nil}, "l": {link: "a"}})
	a2 := append([]byte{}, a...)
	a2[70000] ^= 1
	mk(t, nd, map[string]ent{"a": {data: a2}, "b2": {data: rnd(2, 300)}, "n": {data: rnd(3, 500)}, "e": {data: nil}})
	outcomes := map[string]int{}
	sites := map[string]int{}
	for _, algo := range []pwr.CompressionAlgorithm{0, 1, 2} {
		comp := &pwr.CompressionSettings{Algorithm: algo, Quality: 1}
		patch, sig, _ := diff(t, od, nd, comp)
		opt, err := optimize(t, patch, od, nd, comp, 1)
		must(t, err)
		tc, sc := walk(t, od), walk(t, nd)
		for pi, p := range [][]byte{patch, opt} {
			step := 1
			if len(p) > 3000 {
				step = len(p) / 1500
			}
			for cut := 0; cut < len(p); cut += step {
				if cut > 2000 && cut < len(p)-2000 && cut%7 != 0 {
					continue
				}
				mp := p[:cut]
				for _, target := range []string{"fresh", "rediff"} {
					if target == "rediff" && pi == 1 {
						continue
					}
					r := guarded(func() error {
						if target == "fresh" {
							return applyFresh(t, mp, od, filepath.Join(d, "out"), nil)
						}
						rc, err := rediff.NewContext(rediff.Params{PatchReader: seeksource.FromBytes(mp), Consumer: &state.Consumer{}, Compression: comp})
						if err != nil {
							return err
						}
						return rc.Optimize(rediff.OptimizeParams{TargetPool: fspool.New(tc, od), SourcePool: fspool.New(sc, nd), PatchWriter: new(bytes.Buffer)})
					})
					outcomes[target+":"+strings.SplitN(r, " ", 2)[0]]++
					if strings.HasPrefix(r, "PANIC") || r == "HANG" {
						sites[algo.String()+" "+target+" "+r]++
					}
				}
			}
		}
		for cut := 0; cut <= len(sig); cut++ {
			r := guarded(func() error {
				src := seeksource.FromBytes(sig[:cut])
				src.Resume(nil)
				si, err := pwr.ReadSignature(context.Background(), src)
				if err != nil {
					return err
				}
				_, err = pwr.ComputeHashInfo(si)
				return err
			})
			outcomes["sig:"+strings.SplitN(r, " ", 2)[0]]++
			if strings.HasPrefix(r, "PANIC") || r == "HANG" {
				sites[algo.String()+" sig "+r]++
			}
		}
	}
	// overlay
	{
		ov := new(bytes.Buffer)
		oldb := rnd(1, 300000)
		nb := append([]byte{}, oldb...)
		for i := 100000; i < 100100; i++ {
			nb[i] ^= 1
		}
		w, _ := overlay.NewOverlayWriter(bytes.NewReader(oldb), 0, ov, 0)
		w.Write(nb)
		w.Finalize()
		b := ov.Bytes()
		for cut := 0; cut <= len(b); cut++ {
			r := guarded(func() error {
				f, _ := os.Create(filepath.Join(d, "ovout"))
				defer f.Close()
				src := seeksource.FromBytes(b[:cut])
				src.Resume(nil)
				return (&overlay.OverlayPatchContext{}).Patch(src, f)
			})
			outcomes["overlay:"+strings.SplitN(r, " ", 2)[0]]++
			if strings.HasPrefix(r, "PANIC") || r == "HANG" {
				sites["overlay "+r]++
			}
		}
	}
	t.Logf("outcomes=%v", outcomes)
	for s, n := range sites {
		t.Logf("%5d  %s", n, s)
	}
}
