package scratch

import (
	"bytes"
	"context"
	"math/rand"
	"os"
	"path/filepath"


	"github.com/itchio/headway/state"
	"github.com/itchio/lake"
	"github.com/itchio/lake/pools/fspool"
	"github.com/itchio/lake/tlc"
	"github.com/itchio/savior"
	"github.com/itchio/savior/seeksource"
	"github.com/itchio/wharf/pwr"
	"github.com/itchio/wharf/pwr/bowl"
	"github.com/itchio/wharf/pwr/patcher"

	_ "github.com/itchio/wharf/compressors/cbrotli"
	_ "github.com/itchio/wharf/compressors/gzip"
	_ "github.com/itchio/wharf/decompressors/cbrotli"
	_ "github.com/itchio/wharf/decompressors/gzip"
)

const BS = 64 * 1024

func rnd(seed int64, n int) []byte {
	b := make([]byte, n)
	rand.New(rand.NewSource(seed)).Read(b)
	return b
}

type ent struct {
	data []byte
	link string
	dir  bool
}

func mk(t TB, dir string, m map[string]ent) {
	must(t, os.MkdirAll(dir, 0o755))
	for p, e := range m {
		fp := filepath.Join(dir, p)
		must(t, os.MkdirAll(filepath.Dir(fp), 0o755))
		if e.dir {
			must(t, os.MkdirAll(fp, 0o755))
		} else if e.link != "" {
			must(t, os.Symlink(e.link, fp))
		} else {
			must(t, os.WriteFile(fp, e.data, 0o644))
		}
	}
}

func must(t TB, err error) {
	t.Helper()
	if err != nil {
		t.Fatalf("must: %+v", err)
	}
}

func walk(t TB, dir string) *tlc.Container {
	c, err := tlc.WalkAny(dir, tlc.WalkOpts{})
	must(t, err)
	return c
}

func diff(t TB, oldDir, newDir string, comp *pwr.CompressionSettings) (patch []byte, sig []byte, dctx *pwr.DiffContext) {
	tc := walk(t, oldDir)
	sc := walk(t, newDir)
	th, err := pwr.ComputeSignature(context.Background(), tc, fspool.New(tc, oldDir), &state.Consumer{})
	must(t, err)
	if comp == nil {
		comp = &pwr.CompressionSettings{Algorithm: pwr.CompressionAlgorithm_NONE}
	}
	dctx = &pwr.DiffContext{
		Compression:     comp,
		Consumer:        &state.Consumer{},
		SourceContainer: sc,
		Pool:            fspool.New(sc, newDir),
		TargetContainer: tc,
		TargetSignature: th,
	}
	pb := new(bytes.Buffer)
	sb := new(bytes.Buffer)
	must(t, dctx.WritePatch(context.Background(), pb, sb))
	return pb.Bytes(), sb.Bytes(), dctx
}

func sigOf(t TB, dir string) (*pwr.SignatureInfo, []byte) {
	c := walk(t, dir)
	h, err := pwr.ComputeSignature(context.Background(), c, fspool.New(c, dir), &state.Consumer{})
	must(t, err)
	// also serialized form
	buf := new(bytes.Buffer)
	return &pwr.SignatureInfo{Container: c, Hashes: h}, buf.Bytes()
}

func readSig(t TB, sig []byte) *pwr.SignatureInfo {
	src := seeksource.FromBytes(sig)
	_, err := src.Resume(nil)
	must(t, err)
	si, err := pwr.ReadSignature(context.Background(), src)
	must(t, err)
	return si
}

type poolWrap func(p lake.Pool) lake.Pool

func applyFresh(t TB, patch []byte, oldDir, outDir string, wrap poolWrap) error {
	p, err := patcher.New(seeksource.FromBytes(patch), &state.Consumer{})
	if err != nil {
		return err
	}
	var tp lake.Pool = fspool.New(p.GetTargetContainer(), oldDir)
	if wrap != nil {
		tp = wrap(tp)
	}
	b, err := bowl.NewFreshBowl(bowl.FreshBowlParams{
		SourceContainer: p.GetSourceContainer(),
		TargetContainer: p.GetTargetContainer(),
		TargetPool:      tp,
		OutputFolder:    outDir,
	})
	if err != nil {
		return err
	}
	defer b.Close()
	err = p.Resume(nil, tp, b)
	if err != nil {
		return err
	}
	return b.Commit()
}

func applyInPlace(t TB, patch []byte, dir, stage string) error {
	p, err := patcher.New(seeksource.FromBytes(patch), &state.Consumer{})
	if err != nil {
		return err
	}
	tp := fspool.New(p.GetTargetContainer(), dir)
	b, err := bowl.NewOverlayBowl(bowl.OverlayBowlParams{
		SourceContainer: p.GetSourceContainer(),
		TargetContainer: p.GetTargetContainer(),
		StageFolder:     stage,
		OutputFolder:    dir,
		Consumer:        &state.Consumer{},
	})
	if err != nil {
		return err
	}
	defer b.Close()
	err = p.Resume(nil, tp, b)
	if err != nil {
		return err
	}
	return b.Commit()
}

func safekeeperWrap(sig []byte) poolWrap {
	return func(p lake.Pool) lake.Pool {
		sk, err := pwr.NewSafeKeeper(pwr.SafeKeeperParams{
			Inner: p,
			Open: func() (savior.SeekSource, error) {
				s := seeksource.FromBytes(sig)
				_, err := s.Resume(nil)
				return s, err
			},
		})
		if err != nil {
			panic(err)
		}
		return sk
	}
}

// serialized signature of a dir (uncompressed)
func sigBytes(t TB, dir string) []byte {
	empty, _ := os.MkdirTemp("", "empty"); defer os.RemoveAll(empty)
	_, sig, _ := diff(t, empty, dir, nil)
	return sig
}

func same(t TB, a, b string) string {
	ca, cb := walk(t, a), walk(t, b)
	if err := ca.EnsureEqual(cb); err != nil {
		return err.Error()
	}
	for _, f := range ca.Files {
		x, _ := os.ReadFile(filepath.Join(a, f.Path))
		y, _ := os.ReadFile(filepath.Join(b, f.Path))
		if !bytes.Equal(x, y) {
			return "content differs: " + f.Path
		}
	}
	return ""
}
