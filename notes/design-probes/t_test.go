package scratch

import (
	"bytes"
	"math/rand"
	"os"
	"path/filepath"
	"testing"

	"github.com/itchio/headway/state"
	"github.com/itchio/lake/pools/fspool"
	"github.com/itchio/savior/seeksource"
	"github.com/itchio/wharf/pwr"
	"github.com/itchio/wharf/pwr/bowl"
	"github.com/itchio/wharf/pwr/patcher"
	"github.com/itchio/wharf/pwr/rediff"
)

func ckInfo(c *patcher.Checkpoint) (fileIndex int64, off int64) {
	var wc *bowl.WriterCheckpoint
	if c.RsyncCheckpoint != nil {
		wc = c.RsyncCheckpoint.WriterCheckpoint
	} else if c.BsdiffCheckpoint != nil {
		wc = c.BsdiffCheckpoint.WriterCheckpoint
	}
	off = wc.Offset
	if oc, ok := wc.Data.(*bowl.OverlayEntryWriterCheckpoint); ok {
		off = oc.OverlayOffset
	}
	return c.FileIndex, off
}

func TestResumeTails(t *testing.T) {
	d := t.TempDir()
	old, nw := filepath.Join(d, "old"), filepath.Join(d, "new")
	a := rnd(1, 6*BS+100)
	b := rnd(2, 3*BS)
	c := rnd(3, 2*BS+7)
	mk(t, old, map[string]ent{"a": {data: a}, "b": {data: b}, "c": {data: c}, "gone": {data: rnd(9, 100)}, "l": {link: "a"}, "m": {data: rnd(4, 4*BS+9)}})
	a2 := append([]byte{}, a...)
	for i := 0; i < len(a2); i += 2*BS - 13 {
		a2[i] ^= 1
	}
	a2 = append(a2[:3*BS+5], append(rnd(7, 500), a2[3*BS+5:]...)...)
	n1 := append(append(append([]byte{}, b[BS:2*BS]...), rnd(8, 3*BS+3)...), c[:BS]...)
	m2 := append([]byte{}, rnd(4, 4*BS+9)...)
	m2[BS+5] ^= 9
	m2[3*BS+5] ^= 9
	mk(t, nw, map[string]ent{"a": {data: a2}, "b2": {data: b}, "c": {data: c}, "n1": {data: n1}, "c3": {data: c}, "e": {data: nil}, "l": {link: "b2"}, "m": {data: m2}, "z": {data: a}})
	r := rand.New(rand.NewSource(5))
	for _, algo := range []pwr.CompressionAlgorithm{pwr.CompressionAlgorithm_NONE, pwr.CompressionAlgorithm_GZIP, pwr.CompressionAlgorithm_BROTLI} {
		comp := &pwr.CompressionSettings{Algorithm: algo, Quality: 1}
		plain, _, _ := diff(t, old, nw, comp)
		rc, err := rediff.NewContext(rediff.Params{PatchReader: seeksource.FromBytes(plain), Consumer: &state.Consumer{}, Compression: comp, Partitions: 2})
		must(t, err)
		optb := new(bytes.Buffer)
		must(t, rc.Optimize(rediff.OptimizeParams{TargetPool: fspool.New(rc.GetTargetContainer(), old), SourcePool: fspool.New(rc.GetSourceContainer(), nw), PatchWriter: optb}))
		sc := rc.GetSourceContainer()
		for pname, patch := range map[string][]byte{"plain": plain, "opt": optb.Bytes()} {
			for _, mode := range []string{"fresh", "overlay"} {
				w := filepath.Join(d, "w")
				st := filepath.Join(d, "st")
				reset := func() {
					os.RemoveAll(w)
					os.RemoveAll(st)
					if mode == "overlay" {
						cp(t, old, w)
					}
				}
				reset()
				cks, fin, err := session(t, patch, mode, old, w, st, nil, 0)
				must(t, err)
				_ = fin
				N := len(cks)
				fails, tried := 0, 0
				for k := 1; k <= N; k++ {
					for _, lag := range []int{0, 1, 2, N - k} {
						if k+lag > N || lag < 0 {
							continue
						}
						for tail := 0; tail < 4; tail++ {
							tried++
							reset()
							cks2, _, err := session(t, patch, mode, old, w, st, nil, k+lag)
							must(t, err)
							ck := cks2[k-1]
							fi, off := ckInfo(decodeCk(t, ck))
							base := w
							if mode == "overlay" {
								base = st
							}
							// tail manipulation
							for idx, f := range sc.Files {
								p := filepath.Join(base, f.Path)
								stt, err := os.Stat(p)
								if err != nil {
									continue
								}
								lo := int64(0)
								if int64(idx) < fi {
									continue
								}
								if int64(idx) == fi {
									lo = off
								}
								if stt.Size() < lo {
									t.Fatalf("file %s shorter (%d) than checkpointed offset %d", p, stt.Size(), lo)
								}
								switch tail {
								case 1: // truncate
									nl := lo + r.Int63n(stt.Size()-lo+1)
									must(t, os.Truncate(p, nl))
								case 2: // garbage
									fh, _ := os.OpenFile(p, os.O_WRONLY, 0)
									g := make([]byte, stt.Size()-lo)
									r.Read(g)
									fh.WriteAt(g, lo)
									fh.Close()
								case 3: // delete later stage files
									if mode == "overlay" && int64(idx) > fi {
										os.Remove(p)
									}
								}
							}
							_, fin, err := session(t, patch, mode, old, w, st, ck, 0)
							if err != nil || !fin {
								fails++
								t.Logf("%v %s %s k=%d lag=%d tail=%d: err=%v fin=%v", algo, pname, mode, k, lag, tail, err, fin)
								continue
							}
							if s := same(t, nw, w); s != "" {
								fails++
								t.Logf("%v %s %s k=%d lag=%d tail=%d: differs %s", algo, pname, mode, k, lag, tail, s)
							}
						}
					}
				}
				t.Logf("%v %s %s: checkpoints=%d tried=%d fails=%d", algo, pname, mode, N, tried, fails)
			}
		}
	}
}
