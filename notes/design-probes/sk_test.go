package scratch

import (
	"os"
	"path/filepath"
	"testing"

	"github.com/itchio/wharf/pwr"
	"pgregory.net/rapid"
)

func TestSafekeeperProp(t *testing.T) {
	stats := map[string]int{}
	rapid.Check(t, func(t *rapid.T) {
		old := genOld(t)
		nw := genNew(t, old, false)
		for p, n := range nw {
			if o, ok := old[p]; ok && o.Kind != n.Kind {
				t.Skip("kind")
			}
		}
		d, _ := os.MkdirTemp("", "sk")
		defer os.RemoveAll(d)
		od, nd := filepath.Join(d, "old"), filepath.Join(d, "new")
		old.write(t, od)
		nw.write(t, nd)
		none := &pwr.CompressionSettings{Algorithm: pwr.CompressionAlgorithm_NONE}
		patch, _, _ := diff(t, od, nd, none)
		if rapid.Bool().Draw(t, "opt") {
			var err error
			patch, err = optimize(t, patch, od, nd, none, 1)
			if err != nil {
				t.Fatalf("optimize: %v", err)
			}
		}
		oldSig := sigBytes(t, od)
		// damage old files
		dd := filepath.Join(d, "dmg")
		dmg := old.clone()
		ndmg := rapid.IntRange(0, 2).Draw(t, "ndmg")
		damaged := false
		for i := 0; i < ndmg; i++ {
			fs := dmg.files()
			if len(fs) == 0 {
				break
			}
			p := rapid.SampledFrom(fs).Draw(t, "victim")
			data := append([]byte{}, dmg[p].Data...)
			switch rapid.IntRange(0, 3).Draw(t, "dk") {
			case 0:
				if len(data) > 0 {
					nb := (len(data) + BS - 1) / BS
					b := rapid.IntRange(0, nb-1).Draw(t, "blk")
					off := b*BS + rapid.SampledFrom([]int{0, 1, BS - 1, 100}).Draw(t, "o")
					if off >= len(data) {
						off = len(data) - 1
					}
					data[off] ^= 4
					damaged = true
				}
			case 1:
				nbk := len(data) / BS
				nl := rapid.IntRange(0, nbk).Draw(t, "tb")*BS + rapid.IntRange(-1, 1).Draw(t, "td")
				if nl < 0 {
					nl = 0
				}
				if nl < len(data) {
					data = data[:nl]
					damaged = true
				}
			case 2:
				ext := rapid.SampledFrom([]int{1, 7, BS - len(data)%BS - 1, BS - len(data)%BS, BS - len(data)%BS + 1, 2 * BS}).Draw(t, "ext")
				if ext > 0 {
					data = append(data, rnd(55, ext)...)
					damaged = true
				}
			case 3:
				dmg.remove(p)
				damaged = true
				continue
			}
			dmg[p] = &node{Kind: "f", Data: data}
		}
		dmg.write(t, dd)
		out := filepath.Join(d, "out")
		err := applyFresh(t, patch, dd, out, safekeeperWrap(oldSig))
		if err == nil {
			if s := treeDiff(nw, readTree(t, out)); s != "" {
				t.Fatalf("SILENT WRONG (damaged=%v): %s", damaged, s)
			}
			if damaged {
				stats["damaged-but-correct"]++
			} else {
				stats["undamaged-ok"]++
			}
		} else {
			if !damaged {
				t.Fatalf("undamaged rejected: %v", err)
			}
			stats["damaged-error"]++
		}
	})
	t.Logf("%v", stats)
}
