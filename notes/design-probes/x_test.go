package scratch

import (
	"bytes"
	"fmt"
	"io"
	"os"
	"path/filepath"
	"testing"

	"github.com/itchio/headway/state"
	"github.com/itchio/lake"
	"github.com/itchio/lake/pools/fspool"
	"github.com/itchio/savior/seeksource"
	"github.com/itchio/wharf/pwr"
	"github.com/itchio/wharf/pwr/bowl"
	"github.com/itchio/wharf/pwr/patcher"
	"pgregory.net/rapid"
)

type recBowl struct {
	bowl.Bowl
	writers map[int64]int
	transp  map[int64]int
}

func (b *recBowl) GetWriter(i int64) (bowl.EntryWriter, error) {
	b.writers[i]++
	return b.Bowl.GetWriter(i)
}
func (b *recBowl) Transpose(t bowl.Transposition) error {
	b.transp[t.SourceIndex]++
	return b.Bowl.Transpose(t)
}

type recRPool struct {
	lake.Pool
	reads map[int64]int
}

func (p *recRPool) GetSize(i int64) int64 { return p.Pool.GetSize(i) }
func (p *recRPool) GetReader(i int64) (io.Reader, error) {
	p.reads[i]++
	return p.Pool.GetReader(i)
}
func (p *recRPool) GetReadSeeker(i int64) (io.ReadSeeker, error) {
	p.reads[i]++
	return p.Pool.GetReadSeeker(i)
}

func TestWhitelistProp(t *testing.T) {
	rapid.Check(t, func(t *rapid.T) {
		old := genOld(t)
		nw := genNew(t, old, false)
		for p, n := range nw {
			if o, ok := old[p]; ok && o.Kind != n.Kind {
				t.Skip("kind change")
			}
		}
		d, _ := os.MkdirTemp("", "wl")
		defer os.RemoveAll(d)
		od, nd := filepath.Join(d, "old"), filepath.Join(d, "new")
		old.write(t, od)
		nw.write(t, nd)
		comp := &pwr.CompressionSettings{Algorithm: rapid.SampledFrom([]pwr.CompressionAlgorithm{0, 1, 2}).Draw(t, "algo"), Quality: 1}
		if len(nw) == 0 && comp.Algorithm == 2 {
			t.Skip("F22")
		}
		patch, _, _ := diff(t, od, nd, comp)
		if rapid.Bool().Draw(t, "opt") {
			var err error
			patch, err = optimize(t, patch, od, nd, comp, 1)
			if err != nil {
				t.Fatal(err)
			}
		}
		p, err := patcher.New(seeksource.FromBytes(patch), &state.Consumer{})
		if err != nil {
			t.Fatal(err)
		}
		nf := len(p.GetSourceContainer().Files)
		wl := map[int64]bool{}
		for i := 0; i < nf; i++ {
			if rapid.Bool().Draw(t, "in") {
				wl[int64(i)] = true
			}
		}
		p.SetSourceIndexWhitelist(wl)
		tp := &recRPool{Pool: fspool.New(p.GetTargetContainer(), od), reads: map[int64]int{}}
		out := filepath.Join(d, "out")
		fb, err := bowl.NewFreshBowl(bowl.FreshBowlParams{SourceContainer: p.GetSourceContainer(), TargetContainer: p.GetTargetContainer(), TargetPool: tp, OutputFolder: out})
		if err != nil {
			t.Fatal(err)
		}
		rb := &recBowl{Bowl: fb, writers: map[int64]int{}, transp: map[int64]int{}}
		if err := p.Resume(nil, tp, rb); err != nil {
			t.Fatalf("resume: %v", err)
		}
		if err := rb.Commit(); err != nil {
			t.Fatal(err)
		}
		if p.GetTouchedFiles() != int64(len(wl)) {
			t.Fatalf("touched %d want %d", p.GetTouchedFiles(), len(wl))
		}
		for i := 0; i < nf; i++ {
			c := rb.writers[int64(i)] + rb.transp[int64(i)]
			if wl[int64(i)] && c != 1 {
				t.Fatalf("file %d whitelisted, bowl calls %d", i, c)
			}
			if !wl[int64(i)] && c != 0 {
				t.Fatalf("file %d not whitelisted, bowl calls %d", i, c)
			}
			if wl[int64(i)] {
				f := p.GetSourceContainer().Files[i]
				got, _ := os.ReadFile(filepath.Join(out, f.Path))
				if !bytes.Equal(got, nw[f.Path].Data) {
					t.Fatalf("file %s differs", f.Path)
				}
			}
		}
		if len(wl) == 0 && len(tp.reads) != 0 {
			t.Fatalf("reads with empty whitelist: %v", tp.reads)
		}
	})
}

var _ = fmt.Sprintf
