package scratch

import (
	"testing"
	"bytes"
	"math/rand"

	"github.com/itchio/wharf/wsync"
	"pgregory.net/rapid"
)

var _ = rapid.Check

// data op limit: random file of 4MiB+100 with empty library
func TestDataOpLimit(t *testing.T) {
	ctx := wsync.NewContext(64 * 1024)
	lib := wsync.NewBlockLibrary(nil)
	src := make([]byte, 4*1024*1024+100)
	rand.New(rand.NewSource(1)).Read(src)
	var sizes []int
	err := ctx.ComputeDiff(bytes.NewReader(src), lib, func(op wsync.Operation) error {
		sizes = append(sizes, len(op.Data))
		return nil
	}, -1)
	t.Logf("err=%v sizes=%v max=%d", err, sizes, wsync.MaxDataOp)
}
