package scratch

import (
	"bytes"
	"fmt"
	"io"
	"testing"

	"github.com/golang/protobuf/proto"
	"github.com/itchio/headway/state"
	"github.com/itchio/wharf/bsdiff"
	"github.com/itchio/wharf/bsdiff/lrufile"
	"pgregory.net/rapid"
)

func bsd(old, nw []byte, parts int) (ctrls []*bsdiff.Control, err error) {
	defer func() {
		if r := recover(); r != nil {
			err = fmt.Errorf("panic: %v", r)
		}
	}()
	dc := &bsdiff.DiffContext{Partitions: parts}
	err = dc.Do(bytes.NewReader(old), bytes.NewReader(nw), func(m proto.Message) error {
		ctrls = append(ctrls, proto.Clone(m).(*bsdiff.Control))
		return nil
	}, &state.Consumer{})
	return
}

func refApply(old []byte, ctrls []*bsdiff.Control) ([]byte, string) {
	var out []byte
	pos := int64(0)
	for i, c := range ctrls {
		if c.Eof {
			if i != len(ctrls)-1 {
				return nil, "eof not last"
			}
			return out, ""
		}
		if pos < 0 || pos+int64(len(c.Add)) > int64(len(old)) {
			return nil, fmt.Sprintf("add out of range pos=%d add=%d old=%d", pos, len(c.Add), len(old))
		}
		for j, a := range c.Add {
			out = append(out, a+old[pos+int64(j)])
		}
		pos += int64(len(c.Add))
		out = append(out, c.Copy...)
		pos += c.Seek
	}
	return nil, "no eof"
}

func TestBsdiffExhaustive(t *testing.T) {
	n, bad := 0, 0
	first := ""
	var pc = bsdiff.NewPatchContext()
	allStrings(2, 6, func(o []byte) {
		old := append([]byte{}, o...)
		if len(old) == 0 {
			return // F8
		}
		allStrings(2, 6, func(s []byte) {
			for parts := 0; parts <= 3; parts++ {
				if parts > 0 && len(s) < parts && len(s) > 0 && parts < len(old)-1 {
					continue // F7
				}
				n++
				ctrls, err := bsd(old, s, parts)
				msg := ""
				if err != nil {
					msg = err.Error()
				} else {
					out, m := refApply(old, ctrls)
					if m != "" {
						msg = m
					} else if !bytes.Equal(out, s) {
						msg = fmt.Sprintf("ref mismatch got %q", out)
					} else {
						// real patcher
						i := 0
						ob := new(bytes.Buffer)
						err := pc.Patch(bytes.NewReader(old), ob, int64(len(s)), func(m proto.Message) error {
							if i >= len(ctrls) {
								return io.EOF
							}
							m.Reset()
							proto.Merge(m, ctrls[i])
							i++
							return nil
						})
						if err != nil {
							msg = "patch err " + err.Error()
						} else if !bytes.Equal(ob.Bytes(), s) {
							msg = "patch mismatch"
						}
					}
				}
				if msg != "" {
					bad++
					if first == "" {
						first = fmt.Sprintf("old=%q new=%q parts=%d: %s", old, s, parts, msg)
					}
				}
			}
		})
	})
	t.Logf("cases=%d bad=%d first=%s", n, bad, first)
}

func TestLruModel(t *testing.T) {
	rapid.Check(t, func(t *rapid.T) {
		cs := rapid.IntRange(1, 70).Draw(t, "chunk")
		ne := rapid.IntRange(1, 8).Draw(t, "entries")
		lf, err := lrufile.New(int64(cs), ne)
		if err != nil {
			t.Fatal(err)
		}
		var content []byte
		pos := int64(0)
		reset := func() {
			n := rapid.IntRange(0, 500).Draw(t, "size")
			content = rnd(int64(n), n)
			if err := lf.Reset(bytes.NewReader(content)); err != nil {
				t.Fatal(err)
			}
			pos = 0
		}
		reset()
		t.Repeat(map[string]func(*rapid.T){
			"reset": func(t *rapid.T) { reset() },
			"seek": func(t *rapid.T) {
				off := int64(rapid.IntRange(0, len(content)).Draw(t, "off"))
				got, err := lf.Seek(off, io.SeekStart)
				if err != nil || got != off {
					t.Fatalf("seek %d: %d %v", off, got, err)
				}
				pos = off
			},
			"seekcur": func(t *rapid.T) {
				np := int64(rapid.IntRange(0, len(content)).Draw(t, "np"))
				got, err := lf.Seek(np-pos, io.SeekCurrent)
				if err != nil || got != np {
					t.Fatalf("seekcur: %d %v", got, err)
				}
				pos = np
			},
			"read": func(t *rapid.T) {
				n := rapid.IntRange(0, 200).Draw(t, "n")
				buf := make([]byte, n)
				got, err := lf.Read(buf)
				want := content[pos:]
				if len(want) > n {
					want = want[:n]
				}
				if got != len(want) || !bytes.Equal(buf[:got], want) {
					t.Fatalf("read at %d n=%d: got %d bytes want %d (err=%v)", pos, n, got, len(want), err)
				}
				if err != nil && err != io.EOF {
					t.Fatalf("err %v", err)
				}
				if got < n && err != io.EOF {
					t.Fatalf("short read without EOF at %d n=%d got=%d size=%d", pos, n, got, len(content))
				}
				pos += int64(got)
			},
		})
	})
}
