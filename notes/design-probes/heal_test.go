package scratch

import (
	"context"
	"os"
	"path/filepath"
	"strings"
	"testing"

	"github.com/itchio/headway/state"
	"github.com/itchio/wharf/archiver"
	"github.com/itchio/wharf/pwr"
	"pgregory.net/rapid"
)

// damage including subtree-hiding swaps
func genDamage2(t *rapid.T, tr tree) tree {
	d := genDamage(t, tr)
	n := rapid.IntRange(0, 2).Draw(t, "nhide")
	for i := 0; i < n; i++ {
		var dirs []string
		for p, nd := range d {
			if nd.Kind == "d" {
				dirs = append(dirs, p)
			}
		}
		if len(dirs) == 0 {
			break
		}
		sortStrings(dirs)
		p := rapid.SampledFrom(dirs).Draw(t, "hide")
		if _, ok := d[p]; !ok {
			continue
		}
		d.remove(p)
		switch rapid.IntRange(0, 2).Draw(t, "hk") {
		case 0:
			d[p] = &node{Kind: "f", Data: []byte("hidden")}
		case 1:
			d[p] = &node{Kind: "l", Dest: "nowhere"}
		case 2:
			// whole dir removed
		}
	}
	return d
}

func sortStrings(s []string) {
	for i := range s {
		for j := i + 1; j < len(s); j++ {
			if s[j] < s[i] {
				s[i], s[j] = s[j], s[i]
			}
		}
	}
}

func TestHealProp(t *testing.T) {
	n := 0
	rapid.Check(t, func(t *rapid.T) {
		signedT := genNew(t, genOld(t), true)
		dmg := genDamage2(t, signedT)
		// F14 exclusion: damaged tree has a symlink at a path that is a dir in signed and resolves to an existing dir
		d, _ := os.MkdirTemp("", "heal")
		defer os.RemoveAll(d)
		sd, dd := filepath.Join(d, "signed"), filepath.Join(d, "dmg")
		signedT.write(t, sd)
		dmg.write(t, dd)
		for p, nd := range dmg {
			if nd.Kind == "l" {
				if s, ok := signedT[p]; ok && s.Kind == "d" {
					if st, err := os.Stat(filepath.Join(dd, p)); err == nil && st.IsDir() {
						t.Skip("F14 shape")
					}
				}
			}
		}
		si := readSig(t, sigBytes(t, sd))
		zp := filepath.Join(d, "b.zip")
		fw, _ := os.Create(zp)
		_, err := archiver.CompressZip(fw, sd, &state.Consumer{})
		if err != nil {
			t.Fatal(err)
		}
		fw.Close()
		if rapid.IntRange(0, 9).Draw(t, "rmall") == 0 {
			os.RemoveAll(dd)
		}
		vctx := &pwr.ValidatorContext{HealPath: "archive," + zp, Consumer: &state.Consumer{}}
		err = vctx.Validate(context.Background(), dd, si)
		if err != nil {
			t.Fatalf("heal err: %v", err)
		}
		got := readTree(t, dd)
		for _, p := range signedT.paths() {
			w := signedT[p]
			g, ok := got[p]
			if !ok || g.Kind != w.Kind || (w.Kind == "l" && g.Dest != w.Dest) || (w.Kind == "f" && string(g.Data) != string(w.Data)) {
				t.Fatalf("after heal, %s wrong (present=%v)", p, ok)
			}
		}
		if err := pwr.AssertValid(dd, si); err != nil {
			t.Fatalf("assertvalid after heal: %v", err)
		}
		n++
	})
	t.Logf("n=%d", n)
}

var _ = strings.Contains
