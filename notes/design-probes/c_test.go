package scratch

import (
	"bytes"
	"context"
	"fmt"
	"os"
	"path/filepath"
	"testing"
	"time"

	"github.com/itchio/headway/state"
	"github.com/itchio/lake/pools/fspool"
	"github.com/itchio/lake/tlc"
	"github.com/itchio/savior/seeksource"
	"github.com/itchio/wharf/archiver"
	"github.com/itchio/wharf/bsdiff"
	"github.com/itchio/wharf/pwr"
	"github.com/itchio/wharf/pwr/rediff"
	"github.com/itchio/wharf/wire"
	"github.com/golang/protobuf/proto"
)

func readWounds(t TB, path string) []*pwr.Wound {
	b, err := os.ReadFile(path)
	if err != nil {
		return nil
	}
	src := seeksource.FromBytes(b)
	src.Resume(nil)
	r := wire.NewReadContext(src)
	must(t, r.ExpectMagic(pwr.WoundsMagic))
	must(t, r.ReadMessage(&pwr.WoundsHeader{}))
	c := &tlc.Container{}
	must(t, r.ReadMessage(c))
	var out []*pwr.Wound
	for {
		w := &pwr.Wound{}
		if err := r.ReadMessage(w); err != nil {
			break
		}
		out = append(out, w)
	}
	return out
}

// C05: wound ranges for longer files
func TestWoundRange(t *testing.T) {
	for _, tc := range []struct{ signed, actual int }{{100, 200}, {BS, BS + 10}, {0, 5}, {BS + 5, 3 * BS}, {200, 100}, {2 * BS, BS}} {
		d := t.TempDir()
		dir := filepath.Join(d, "b")
		mk(t, dir, map[string]ent{"f": {data: rnd(1, tc.signed)}})
		si := readSig(t, sigBytes(t, dir))
		must(t, os.WriteFile(filepath.Join(dir, "f"), rnd(1, tc.actual), 0o644))
		wp := filepath.Join(d, "wounds.pww")
		vctx := &pwr.ValidatorContext{WoundsPath: wp, Consumer: &state.Consumer{}}
		err := vctx.Validate(context.Background(), dir, si)
		ws := readWounds(t, wp)
		s := ""
		for _, w := range ws {
			s += fmt.Sprintf("[%v #%d %d..%d] ", w.Kind, w.Index, w.Start, w.End)
		}
		t.Logf("signed=%d actual=%d err=%v total=%d wounds=%s", tc.signed, tc.actual, err, vctx.WoundsConsumer.TotalCorrupted(), s)
	}
}

// C16: cancel → false valid?
func TestCancelFalseValid(t *testing.T) {
	d := t.TempDir()
	dir := filepath.Join(d, "b")
	mk(t, dir, map[string]ent{"f": {data: rnd(1, 1000)}, "g": {data: rnd(2, 1000)}})
	si := readSig(t, sigBytes(t, dir))
	must(t, os.WriteFile(filepath.Join(dir, "g"), rnd(3, 1000), 0o644))
	nils := 0
	for i := 0; i < 50; i++ {
		ctx, cancel := context.WithCancel(context.Background())
		cancel()
		vctx := &pwr.ValidatorContext{FailFast: true, Consumer: &state.Consumer{}}
		err := vctx.Validate(ctx, dir, si)
		if err == nil {
			nils++
		}
	}
	t.Logf("pre-cancelled ctx on damaged dir: %d/50 returned nil", nils)
}

// C07/C12: bsdiff div by zero
func TestBsdiffSmall(t *testing.T) {
	for _, tc := range []struct{ o, n, p int }{{100, 3, 4}, {100, 4, 4}, {100, 5, 4}, {1, 5, 2}, {2, 5, 1}, {100, 0, 3}} {
		func() {
			defer func() {
				if r := recover(); r != nil {
					t.Logf("old=%d new=%d part=%d PANIC %v", tc.o, tc.n, tc.p, r)
				}
			}()
			dc := &bsdiff.DiffContext{Partitions: tc.p}
			var n int
			err := dc.Do(bytes.NewReader(rnd(1, tc.o)), bytes.NewReader(rnd(2, tc.n)), func(m proto.Message) error { n++; return nil }, &state.Consumer{})
			t.Logf("old=%d new=%d part=%d err=%v msgs=%d", tc.o, tc.n, tc.p, err, n)
		}()
	}
}

// C10: ComputeHashInfo on truncated signature
func TestHashInfoTrunc(t *testing.T) {
	d := t.TempDir()
	dir := filepath.Join(d, "b")
	mk(t, dir, map[string]ent{"f": {data: rnd(1, 3*BS+5)}, "g": {data: rnd(2, 1000)}})
	sig := sigBytes(t, dir)
	for cut := len(sig) - 1; cut > len(sig)-120; cut -= 13 {
		func() {
			defer func() {
				if r := recover(); r != nil {
					t.Logf("cut=%d PANIC %v", cut, r)
				}
			}()
			src := seeksource.FromBytes(sig[:cut])
			src.Resume(nil)
			si, err := pwr.ReadSignature(context.Background(), src)
			if err != nil {
				t.Logf("cut=%d ReadSignature err=%v", cut, err)
				return
			}
			_, err = pwr.ComputeHashInfo(si)
			t.Logf("cut=%d hashes=%d hashinfo err=%v", cut, len(si.Hashes), err)
		}()
	}
}

// C06: dir replaced by file with nested subdir
func TestHealENOTDIR(t *testing.T) {
	fails := 0
	var last error
	for i := 0; i < 20; i++ {
		d := t.TempDir()
		dir := filepath.Join(d, "b")
		mk(t, dir, map[string]ent{"a/b/f": {data: rnd(1, 1000)}, "a/g": {data: rnd(2, 10)}, "a/c": {dir: true}, "a/l": {link: "g"}})
		si := readSig(t, sigBytes(t, dir))
		zp := filepath.Join(d, "b.zip")
		fw, _ := os.Create(zp)
		_, err := archiver.CompressZip(fw, dir, &state.Consumer{})
		must(t, err)
		fw.Close()
		must(t, os.RemoveAll(filepath.Join(dir, "a")))
		must(t, os.WriteFile(filepath.Join(dir, "a"), []byte("x"), 0o644))
		vctx := &pwr.ValidatorContext{HealPath: "archive," + zp, Consumer: &state.Consumer{}}
		err = vctx.Validate(context.Background(), dir, si)
		if err != nil {
			fails++
			last = err
		} else if e := pwr.AssertValid(dir, si); e != nil {
			fails++
			last = e
		}
	}
	t.Logf("heal dir->file with nested: %d/20 failed, last=%v", fails, last)
}

// C15: rediff tie nondeterminism
func TestRediffTie(t *testing.T) {
	d := t.TempDir()
	old, nw := filepath.Join(d, "old"), filepath.Join(d, "new")
	a, b := rnd(1, 2*BS), rnd(2, 2*BS)
	mk(t, old, map[string]ent{"a": {data: a}, "b": {data: b}})
	c := append(append(append([]byte{}, a...), b...), rnd(3, 100)...)
	mk(t, nw, map[string]ent{"c": {data: c}})
	patch, _, _ := diff(t, old, nw, nil)
	seen := map[string]int{}
	for i := 0; i < 30; i++ {
		rc, err := rediff.NewContext(rediff.Params{PatchReader: seeksource.FromBytes(patch), Consumer: &state.Consumer{}, Compression: &pwr.CompressionSettings{Algorithm: pwr.CompressionAlgorithm_NONE}})
		must(t, err)
		out := new(bytes.Buffer)
		must(t, rc.Optimize(rediff.OptimizeParams{TargetPool: fspool.New(rc.GetTargetContainer(), old), SourcePool: fspool.New(rc.GetSourceContainer(), nw), PatchWriter: out}))
		seen[fmt.Sprintf("len=%d map=%v", out.Len(), *rc.GetDiffMappings()[0])]++
	}
	t.Logf("distinct optimized outputs: %v", seen)
}

var _ = time.Second
