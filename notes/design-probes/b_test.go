package scratch

import (
	"os"
	"path/filepath"
	"testing"
)

// C09: safekeeper, whole-file copy of file with size exact multiple of 64KiB
func TestSKMultiple(t *testing.T) {
	for _, size := range []int{BS, 2 * BS, BS + 100, 100} {
		d := t.TempDir()
		old, nw, out := filepath.Join(d, "old"), filepath.Join(d, "new"), filepath.Join(d, "out")
		x := rnd(1, size)
		mk(t, old, map[string]ent{"x": {data: x}})
		mk(t, nw, map[string]ent{"y": {data: x}})
		patch, _, _ := diff(t, old, nw, nil)
		oldSig := sigBytes(t, old)
		err := applyFresh(t, patch, old, out, safekeeperWrap(oldSig))
		t.Logf("size=%d err=%v same=%q", size, err, func() string { if err != nil { return "-" }; return same(t, nw, out) }())
	}
}

// C09: GetReader not rewinding
func TestSKRewind(t *testing.T) {
	d := t.TempDir()
	old, nw, out := filepath.Join(d, "old"), filepath.Join(d, "new"), filepath.Join(d, "out")
	x := rnd(1, 3*BS+10)
	mk(t, old, map[string]ent{"x": {data: x}})
	a := append(append([]byte{}, x[:2*BS]...), rnd(2, 1000)...)
	mk(t, nw, map[string]ent{"a": {data: a}, "b": {data: x}})
	patch, _, _ := diff(t, old, nw, nil)
	oldSig := sigBytes(t, old)
	err := applyFresh(t, patch, old, out, safekeeperWrap(oldSig))
	t.Logf("err=%v", err)
	if err == nil {
		t.Logf("same=%q", same(t, nw, out))
	}
	// without safekeeper
	out2 := filepath.Join(d, "out2")
	err = applyFresh(t, patch, old, out2, nil)
	t.Logf("plain err=%v same=%q", err, same(t, nw, out2))
}

// C09: truncation at block boundary
func TestSKTrunc(t *testing.T) {
	for _, mode := range []string{"copy", "ranges"} {
		for _, cut := range []int{2 * BS, BS, 0, 2*BS + 5, 3*BS + 10 + 7, 3*BS + 10 + BS, 3*BS + 10 + BS + 1} {
			d := t.TempDir()
			old, nw, out := filepath.Join(d, "old"), filepath.Join(d, "new"), filepath.Join(d, "out")
			x := rnd(1, 3*BS+10)
			mk(t, old, map[string]ent{"x": {data: x}})
			if mode == "copy" {
				mk(t, nw, map[string]ent{"y": {data: x}})
			} else {
				y := append(append([]byte{}, rnd(3, 500)...), x...)
				mk(t, nw, map[string]ent{"y": {data: y}})
			}
			patch, _, _ := diff(t, old, nw, nil)
			oldSig := sigBytes(t, old)
			// damage
			if cut <= len(x) {
				must(t, os.Truncate(filepath.Join(old, "x"), int64(cut)))
			} else {
				f, _ := os.OpenFile(filepath.Join(old, "x"), os.O_APPEND|os.O_WRONLY, 0)
				f.Write(rnd(9, cut-len(x)))
				f.Close()
			}
			err := applyFresh(t, patch, old, out, safekeeperWrap(oldSig))
			res := "-"
			if err == nil {
				res = same(t, nw, out)
			}
			t.Logf("mode=%s cut=%d err=%v same=%q", mode, cut, err != nil, res)
		}
	}
}
