package scratch

import (
	"bytes"
	"fmt"
	"io"
	"os"
	"os/exec"
	"path/filepath"
	"strconv"
	"sync"
	"testing"
	"time"

	"github.com/itchio/arkive/zip"
	"github.com/itchio/headway/state"
	"github.com/itchio/wharf/archiver"
)

type gatedReaderAt struct {
	r        io.ReaderAt
	lo, hi   int64 // gated data range
	mu       sync.Mutex
	cond     *sync.Cond
	done     int
	need     int
}

func (g *gatedReaderAt) ReadAt(p []byte, off int64) (int, error) {
	if off < g.hi && off+int64(len(p)) > g.lo {
		g.mu.Lock()
		deadline := time.Now().Add(5 * time.Second)
		for g.done < g.need && time.Now().Before(deadline) {
			g.mu.Unlock()
			time.Sleep(time.Millisecond)
			g.mu.Lock()
		}
		g.mu.Unlock()
	}
	return g.r.ReadAt(p, off)
}

func TestGateChild(t *testing.T) {
	if os.Getenv("GC_ZIP") == "" {
		t.Skip()
	}
	zipb, _ := os.ReadFile(os.Getenv("GC_ZIP"))
	j, _ := strconv.Atoi(os.Getenv("GC_J"))
	w, _ := strconv.Atoi(os.Getenv("GC_W"))
	gi, _ := strconv.Atoi(os.Getenv("GC_GATED"))
	need, _ := strconv.Atoi(os.Getenv("GC_NEED"))
	zr, _ := zip.NewReader(bytes.NewReader(zipb), int64(len(zipb)))
	f := zr.File[gi]
	off, _ := f.DataOffset()
	g := &gatedReaderAt{r: bytes.NewReader(zipb), lo: off, hi: off + int64(f.CompressedSize64), need: need}
	var mu sync.Mutex
	n := 0
	_, err := archiver.ExtractZip(g, int64(len(zipb)), os.Getenv("GC_OUT"), archiver.ExtractSettings{
		Consumer: &state.Consumer{}, Concurrency: w, ResumeFrom: os.Getenv("GC_RES"),
		OnEntryDone: func(p string) {
			mu.Lock()
			n++
			k := n
			mu.Unlock()
			g.mu.Lock()
			g.done = k
			g.mu.Unlock()
			if k == j {
				os.Exit(3)
			}
		},
	})
	if err != nil {
		os.Exit(4)
	}
	os.Exit(0)
}

func TestGateResume(t *testing.T) {
	d := t.TempDir()
	src := filepath.Join(d, "src")
	m := map[string]ent{}
	for i := 0; i < 12; i++ {
		m[fmt.Sprintf("f%02d", i)] = ent{data: rnd(int64(i), 50+i)}
	}
	mk(t, src, m)
	buf := new(bytes.Buffer)
	_, err := archiver.CompressZip(buf, src, &state.Consumer{})
	must(t, err)
	zp := filepath.Join(d, "a.zip")
	os.WriteFile(zp, buf.Bytes(), 0o644)
	want := readTree(t, src)
	for _, w := range []int{1, 2, 3} {
		bad := 0
		first := ""
		for rep := 0; rep < 5; rep++ {
			out := filepath.Join(d, "out")
			os.RemoveAll(out)
			res := filepath.Join(d, "resume")
			os.Remove(res)
			// gate entry #2 until 4 others done; crash at 4th completion
			cmd := exec.Command(os.Args[0], "-test.run=TestGateChild$")
			cmd.Env = append(os.Environ(), "GC_ZIP="+zp, "GC_OUT="+out, "GC_RES="+res, "GC_J=4", "GC_W="+strconv.Itoa(w), "GC_GATED=2", "GC_NEED=4")
			cmd.Run()
			rb, _ := os.ReadFile(res)
			_, err = archiver.ExtractZip(bytes.NewReader(buf.Bytes()), int64(buf.Len()), out, archiver.ExtractSettings{Consumer: &state.Consumer{}, Concurrency: w, ResumeFrom: res})
			must(t, err)
			if s := treeDiff(want, readTree(t, out)); s != "" {
				bad++
				if first == "" {
					first = fmt.Sprintf("resumefile=%q: %s", rb, s)
				}
			}
		}
		t.Logf("workers=%d bad=%d/5 %s", w, bad, first)
	}
}
