package scratch

import (
	"bytes"
	"path/filepath"
	"runtime"
	"testing"

	"github.com/itchio/headway/state"
	"github.com/itchio/lake/pools/fspool"
	"github.com/itchio/savior/seeksource"
	"github.com/itchio/wharf/pwr"
	"github.com/itchio/wharf/pwr/rediff"
)

func TestDeterminism(t *testing.T) {
	d := t.TempDir()
	old, nw := filepath.Join(d, "old"), filepath.Join(d, "new")
	a := rnd(1, 20*BS+100)
	a2 := append([]byte{}, a...)
	for i := 0; i < len(a2); i += 3000 {
		a2[i] ^= 1
	}
	mk(t, old, map[string]ent{"a": {data: a}, "b": {data: rnd(2, 5*BS)}})
	mk(t, nw, map[string]ent{"a": {data: a2}, "b": {data: rnd(2, 5*BS)}, "c": {data: a[:7*BS]}})
	for _, algo := range []pwr.CompressionAlgorithm{pwr.CompressionAlgorithm_NONE, pwr.CompressionAlgorithm_GZIP, pwr.CompressionAlgorithm_BROTLI} {
		comp := &pwr.CompressionSettings{Algorithm: algo, Quality: 3}
		var p0, s0, o0 []byte
		diffs := 0
		for i := 0; i < 6; i++ {
			runtime.GOMAXPROCS(1 + (i*5)%16)
			p, s, _ := diff(t, old, nw, comp)
			rc, err := rediff.NewContext(rediff.Params{PatchReader: seeksource.FromBytes(p), Consumer: &state.Consumer{}, Compression: comp, Partitions: 1 + i%4*3, SuffixSortConcurrency: i % 3})
			must(t, err)
			ob := new(bytes.Buffer)
			must(t, rc.Optimize(rediff.OptimizeParams{TargetPool: fspool.New(rc.GetTargetContainer(), old), SourcePool: fspool.New(rc.GetSourceContainer(), nw), PatchWriter: ob}))
			_ = o0
			if i == 0 {
				p0, s0 = p, s
			} else if !bytes.Equal(p, p0) || !bytes.Equal(s, s0) {
				diffs++
			}
		}
		t.Logf("%v: diffs=%d patch=%d sig=%d", algo, diffs, len(p0), len(s0))
	}
	runtime.GOMAXPROCS(16)
}
