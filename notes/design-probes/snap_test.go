package scratch

import (
	"context"
	"fmt"
	"os"
	"path/filepath"
	"syscall"
	"testing"

	"github.com/itchio/headway/state"
	"github.com/itchio/lake/pools/fspool"
	"github.com/itchio/savior/seeksource"
	"github.com/itchio/wharf/archiver"
	"github.com/itchio/wharf/pwr"
	"github.com/itchio/wharf/pwr/bowl"
	"github.com/itchio/wharf/pwr/patcher"
	"pgregory.net/rapid"
)

func strongSnap(dir string) map[string]string {
	m := map[string]string{}
	filepath.Walk(dir, func(p string, info os.FileInfo, err error) error {
		if err != nil {
			return nil
		}
		rel, _ := filepath.Rel(dir, p)
		st := info.Sys().(*syscall.Stat_t)
		s := fmt.Sprintf("%v ino=%d size=%d mtime=%d.%d mode=%o", info.Mode().Type(), st.Ino, st.Size, st.Mtim.Sec, st.Mtim.Nsec, info.Mode().Perm())
		if info.Mode()&os.ModeSymlink != 0 {
			d, _ := os.Readlink(p)
			s += " -> " + d
		} else if info.Mode().IsRegular() {
			b, _ := os.ReadFile(p)
			s += fmt.Sprintf(" sum=%x", len(b))
			h := uint64(14695981039346656037)
			for _, c := range b {
				h = (h ^ uint64(c)) * 1099511628211
			}
			s += fmt.Sprintf("/%x", h)
		}
		m[rel] = s
		return nil
	})
	return m
}

func snapDiff(a, b map[string]string) string {
	for k, v := range a {
		if b[k] != v {
			return fmt.Sprintf("%s: %q -> %q", k, v, b[k])
		}
	}
	for k := range b {
		if _, ok := a[k]; !ok {
			return "new entry " + k
		}
	}
	return ""
}

func TestSnapProp(t *testing.T) {
	rapid.Check(t, func(t *rapid.T) {
		old := genOld(t)
		nw := genNew(t, old, false)
		d, _ := os.MkdirTemp("", "snap")
		defer os.RemoveAll(d)
		od, nd, work := filepath.Join(d, "old"), filepath.Join(d, "new"), filepath.Join(d, "work")
		old.write(t, od)
		nw.write(t, nd)
		old.write(t, work)
		none := &pwr.CompressionSettings{Algorithm: pwr.CompressionAlgorithm_NONE}
		patch, _, _ := diff(t, od, nd, none)
		before := strongSnap(work)
		p, err := patcher.New(seeksource.FromBytes(patch), &state.Consumer{})
		if err != nil {
			t.Fatal(err)
		}
		tp := fspool.New(p.GetTargetContainer(), work)
		b, err := bowl.NewOverlayBowl(bowl.OverlayBowlParams{SourceContainer: p.GetSourceContainer(), TargetContainer: p.GetTargetContainer(), StageFolder: filepath.Join(d, "stage"), OutputFolder: work, Consumer: &state.Consumer{}})
		if err != nil {
			t.Fatal(err)
		}
		defer b.Close()
		if err := p.Resume(nil, tp, b); err != nil {
			t.Fatal(err)
		}
		if s := snapDiff(before, strongSnap(work)); s != "" {
			t.Fatalf("old build modified before commit: %s", s)
		}
		// heal a valid dir: unchanged
		si := readSig(t, sigBytes(t, od))
		zp := filepath.Join(d, "o.zip")
		fw, _ := os.Create(zp)
		archiver.CompressZip(fw, od, &state.Consumer{})
		fw.Close()
		b4 := strongSnap(od)
		vctx := &pwr.ValidatorContext{HealPath: "archive," + zp, Consumer: &state.Consumer{}}
		if err := vctx.Validate(context.Background(), od, si); err != nil {
			t.Fatalf("heal valid: %v", err)
		}
		if s := snapDiff(b4, strongSnap(od)); s != "" {
			t.Fatalf("valid dir modified by heal: %s", s)
		}
	})
}
