package scratch

import (
	"bytes"
	"fmt"
	"os"
	"path/filepath"
	"sort"
	"strings"
	"testing"

	"github.com/itchio/headway/state"
	"github.com/itchio/lake/pools/fspool"
	"github.com/itchio/savior/seeksource"
	"github.com/itchio/wharf/pwr"
	"github.com/itchio/wharf/pwr/rediff"
	"pgregory.net/rapid"
)

// ---- tree model ----
type node struct {
	Kind string // "f","d","l"
	Data []byte
	Dest string
}
type tree map[string]*node

var names = []string{"a", "b", "c", "d"}

func genPath(t *rapid.T, label string) string {
	depth := rapid.IntRange(1, 3).Draw(t, label+"depth")
	parts := make([]string, depth)
	for i := range parts {
		parts[i] = rapid.SampledFrom(names).Draw(t, label+"seg")
	}
	return strings.Join(parts, "/")
}

// can we add an entry at path p?
func (tr tree) canAdd(p string) bool {
	if _, ok := tr[p]; ok {
		return false
	}
	// all ancestors must be dirs or absent
	parts := strings.Split(p, "/")
	for i := 1; i < len(parts); i++ {
		anc := strings.Join(parts[:i], "/")
		if n, ok := tr[anc]; ok && n.Kind != "d" {
			return false
		}
	}
	return true
}
func (tr tree) add(p string, n *node) {
	parts := strings.Split(p, "/")
	for i := 1; i < len(parts); i++ {
		anc := strings.Join(parts[:i], "/")
		if _, ok := tr[anc]; !ok {
			tr[anc] = &node{Kind: "d"}
		}
	}
	tr[p] = n
}
func (tr tree) remove(p string) {
	delete(tr, p)
	for q := range tr {
		if strings.HasPrefix(q, p+"/") {
			delete(tr, q)
		}
	}
}
func (tr tree) files() []string {
	var fs []string
	for p, n := range tr {
		if n.Kind == "f" {
			fs = append(fs, p)
		}
	}
	sort.Strings(fs)
	return fs
}
func (tr tree) paths() []string {
	var fs []string
	for p := range tr {
		fs = append(fs, p)
	}
	sort.Strings(fs)
	return fs
}
func (tr tree) clone() tree {
	c := tree{}
	for p, n := range tr {
		m := *n
		c[p] = &m
	}
	return c
}
func (tr tree) write(t TB, dir string) {
	must(t, os.MkdirAll(dir, 0o755))
	ps := tr.paths()
	for _, p := range ps {
		n := tr[p]
		fp := filepath.Join(dir, p)
		must(t, os.MkdirAll(filepath.Dir(fp), 0o755))
		switch n.Kind {
		case "d":
			must(t, os.MkdirAll(fp, 0o755))
		case "l":
			must(t, os.Symlink(n.Dest, fp))
		case "f":
			must(t, os.WriteFile(fp, n.Data, 0o644))
		}
	}
}
func readTree(t TB, dir string) tree {
	tr := tree{}
	must(t, filepath.Walk(dir, func(p string, info os.FileInfo, err error) error {
		if err != nil {
			return err
		}
		rel, _ := filepath.Rel(dir, p)
		if rel == "." {
			return nil
		}
		rel = filepath.ToSlash(rel)
		switch {
		case info.IsDir():
			tr[rel] = &node{Kind: "d"}
		case info.Mode()&os.ModeSymlink != 0:
			d, _ := os.Readlink(p)
			tr[rel] = &node{Kind: "l", Dest: d}
		default:
			b, err := os.ReadFile(p)
			if err != nil {
				return err
			}
			tr[rel] = &node{Kind: "f", Data: b}
		}
		return nil
	}))
	return tr
}
func treeDiff(want, got tree) string {
	for _, p := range want.paths() {
		w := want[p]
		g, ok := got[p]
		if !ok {
			return "missing " + p
		}
		if w.Kind != g.Kind {
			return fmt.Sprintf("kind of %s: want %s got %s", p, w.Kind, g.Kind)
		}
		if w.Kind == "l" && w.Dest != g.Dest {
			return "dest of " + p
		}
		if w.Kind == "f" && !bytes.Equal(w.Data, g.Data) {
			return fmt.Sprintf("content of %s (want %d bytes got %d)", p, len(w.Data), len(g.Data))
		}
	}
	for _, p := range got.paths() {
		if _, ok := want[p]; !ok {
			return "extra " + p
		}
	}
	return ""
}

var sizeClasses = []int{0, 1, 2, 100, BS - 1, BS, BS + 1, 2*BS - 1, 2 * BS, 2*BS + 1, 3 * BS, 5*BS + 17}

func genSize(t *rapid.T, label string) int {
	return rapid.OneOf(rapid.SampledFrom(sizeClasses), rapid.IntRange(0, 300), rapid.IntRange(0, 6*BS)).Draw(t, label)
}

var blobCache = map[int64][]byte{}

func blob(seed int64, n int) []byte {
	b, ok := blobCache[seed]
	if !ok || len(b) < n {
		b = rnd(seed, 8*BS)
		blobCache[seed] = b
	}
	return b[:n]
}

func genData(t *rapid.T, label string) []byte {
	seed := int64(rapid.IntRange(1, 6).Draw(t, label+"seed")) // few seeds => shared blocks across files
	n := genSize(t, label+"size")
	return append([]byte{}, blob(seed, n)...)
}

func genOld(t *rapid.T) tree {
	tr := tree{}
	n := rapid.IntRange(0, 6).Draw(t, "nold")
	for i := 0; i < n; i++ {
		p := genPath(t, "old")
		if !tr.canAdd(p) {
			continue
		}
		switch rapid.IntRange(0, 9).Draw(t, "oldkind") {
		case 0:
			tr.add(p, &node{Kind: "d"})
		case 1:
			tr.add(p, &node{Kind: "l", Dest: rapid.SampledFrom(names).Draw(t, "dest")})
		default:
			tr.add(p, &node{Kind: "f", Data: genData(t, "old")})
		}
	}
	return tr
}

func editData(t *rapid.T, d []byte) []byte {
	k := rapid.IntRange(1, 3).Draw(t, "nedits")
	out := append([]byte{}, d...)
	for i := 0; i < k; i++ {
		off := rapid.IntRange(0, len(out)).Draw(t, "off")
		switch rapid.IntRange(0, 2).Draw(t, "ek") {
		case 0:
			n := rapid.IntRange(1, 200).Draw(t, "n")
			for j := off; j < off+n && j < len(out); j++ {
				out[j] ^= 0x5a
			}
		case 1:
			n := rapid.OneOf(rapid.IntRange(1, 200), rapid.SampledFrom([]int{BS - 1, BS, BS + 1})).Draw(t, "n")
			ins := rnd(int64(1000+n+off), n)
			out = append(out[:off], append(ins, out[off:]...)...)
		case 2:
			n := rapid.OneOf(rapid.IntRange(1, 200), rapid.SampledFrom([]int{BS - 1, BS, BS + 1})).Draw(t, "n")
			if off+n > len(out) {
				n = len(out) - off
			}
			out = append(out[:off], out[off+n:]...)
		}
	}
	return out
}

func genNew(t *rapid.T, old tree, allowKindChange bool) tree {
	tr := old.clone()
	nops := rapid.IntRange(0, 8).Draw(t, "nops")
	for i := 0; i < nops; i++ {
		of := old.files()
		op := rapid.IntRange(0, 9).Draw(t, "op")
		switch op {
		case 0: // remove something
			ps := tr.paths()
			if len(ps) > 0 {
				tr.remove(rapid.SampledFrom(ps).Draw(t, "rm"))
			}
		case 1, 2: // copy old file content to a path (rename/dup), maybe removing original
			if len(of) == 0 {
				continue
			}
			src := rapid.SampledFrom(of).Draw(t, "src")
			dst := genPath(t, "dst")
			if n, ok := tr[dst]; ok {
				if n.Kind != "f" && !allowKindChange {
					continue
				}
				tr.remove(dst)
			}
			if !tr.canAdd(dst) {
				continue
			}
			tr.add(dst, &node{Kind: "f", Data: old[src].Data})
			if op == 2 {
				if n, ok := tr[src]; ok && n.Kind == "f" && src != dst {
					tr.remove(src)
				}
			}
		case 3: // edit a file in place
			nf := tr.files()
			if len(nf) == 0 {
				continue
			}
			p := rapid.SampledFrom(nf).Draw(t, "edit")
			tr[p] = &node{Kind: "f", Data: editData(t, tr[p].Data)}
		case 4: // block-aligned prefix/suffix of an old file at some path
			if len(of) == 0 {
				continue
			}
			src := old[rapid.SampledFrom(of).Draw(t, "src")].Data
			nb := len(src) / BS
			var d []byte
			if nb > 0 {
				k := rapid.IntRange(0, nb).Draw(t, "k")
				if rapid.Bool().Draw(t, "prefix") {
					d = src[:k*BS]
				} else {
					d = src[k*BS:]
				}
			}
			dst := genPath(t, "dst")
			if n, ok := tr[dst]; ok {
				if n.Kind != "f" && !allowKindChange {
					continue
				}
				tr.remove(dst)
			}
			if tr.canAdd(dst) {
				tr.add(dst, &node{Kind: "f", Data: append([]byte{}, d...)})
			}
		case 5: // new fresh file
			dst := genPath(t, "dst")
			if n, ok := tr[dst]; ok {
				if n.Kind != "f" && !allowKindChange {
					continue
				}
				tr.remove(dst)
			}
			if tr.canAdd(dst) {
				tr.add(dst, &node{Kind: "f", Data: genData(t, "new")})
			}
		case 6: // symlink add/retarget
			dst := genPath(t, "dst")
			if n, ok := tr[dst]; ok {
				if n.Kind != "l" && !allowKindChange {
					continue
				}
				tr.remove(dst)
			}
			if tr.canAdd(dst) {
				tr.add(dst, &node{Kind: "l", Dest: rapid.SampledFrom(names).Draw(t, "dest")})
			}
		case 7: // empty dir
			dst := genPath(t, "dst")
			if _, ok := tr[dst]; !ok && tr.canAdd(dst) {
				tr.add(dst, &node{Kind: "d"})
			}
		case 8: // swap two files
			nf := tr.files()
			if len(nf) >= 2 {
				a := rapid.SampledFrom(nf).Draw(t, "swa")
				b := rapid.SampledFrom(nf).Draw(t, "swb")
				tr[a], tr[b] = tr[b], tr[a]
			}
		case 9: // concat of pieces from two old files
			if len(of) == 0 {
				continue
			}
			a := old[rapid.SampledFrom(of).Draw(t, "ca")].Data
			b := old[rapid.SampledFrom(of).Draw(t, "cb")].Data
			d := append(append([]byte{}, a...), b...)
			dst := genPath(t, "dst")
			if n, ok := tr[dst]; ok {
				if n.Kind != "f" && !allowKindChange {
					continue
				}
				tr.remove(dst)
			}
			if tr.canAdd(dst) {
				tr.add(dst, &node{Kind: "f", Data: d})
			}
		}
	}
	return tr
}

func optimize(t TB, patch []byte, old, nw string, comp *pwr.CompressionSettings, parts int) ([]byte, error) {
	rc, err := rediff.NewContext(rediff.Params{PatchReader: seeksource.FromBytes(patch), Consumer: &state.Consumer{}, Compression: comp, Partitions: parts})
	if err != nil {
		return nil, err
	}
	ob := new(bytes.Buffer)
	err = rc.Optimize(rediff.OptimizeParams{TargetPool: fspool.New(rc.GetTargetContainer(), old), SourcePool: fspool.New(rc.GetSourceContainer(), nw), PatchWriter: ob})
	return ob.Bytes(), err
}

func TestRoundtripProp(t *testing.T) {
	n := 0
	rapid.Check(t, func(t *rapid.T) {
		old := genOld(t)
		nw := genNew(t, old, false)
		d, err := os.MkdirTemp("", "rt")
		if err != nil {
			t.Fatal(err)
		}
		defer os.RemoveAll(d)
		od, nd := filepath.Join(d, "old"), filepath.Join(d, "new")
		old.write(t, od)
		nw.write(t, nd)
		comp := &pwr.CompressionSettings{Algorithm: rapid.SampledFrom([]pwr.CompressionAlgorithm{0, 1, 2}).Draw(t, "algo"), Quality: int32(rapid.IntRange(0, 9).Draw(t, "q"))}
		for p, n := range nw {
			if o, ok := old[p]; ok && o.Kind != n.Kind {
				t.Skip("known: kind change")
			}
		}
		if len(nw) == 0 && comp.Algorithm == 2 {
			t.Skip("known: empty new + gzip")
		}
		patch, _, _ := diff(t, od, nd, comp)
		parts := rapid.IntRange(0, 1).Draw(t, "parts")
		if parts == 0 {
			parts = 0
		}
		opt, err := optimize(t, patch, od, nd, comp, parts)
		if err != nil {
			t.Fatalf("optimize: %v", err)
		}
		for pi, p := range [][]byte{patch, opt} {
			out := filepath.Join(d, fmt.Sprintf("out%d", pi))
			if err := applyFresh(t, p, od, out, nil); err != nil {
				t.Fatalf("fresh apply patch %d: %v", pi, err)
			}
			if s := treeDiff(nw, readTree(t, out)); s != "" {
				t.Fatalf("fresh patch %d: %s", pi, s)
			}
			work := filepath.Join(d, fmt.Sprintf("work%d", pi))
			old.write(t, work)
			if err := applyInPlace(t, p, work, filepath.Join(d, fmt.Sprintf("stage%d", pi))); err != nil {
				t.Fatalf("inplace apply patch %d: %v", pi, err)
			}
			if s := treeDiff(nw, readTree(t, work)); s != "" {
				t.Fatalf("inplace patch %d: %s", pi, s)
			}
		}
		n++
	})
	t.Logf("n=%d", n)
}
