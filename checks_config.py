"""Per-property configuration of the driver: stages (test function, engine, shards, case
budgets per tier, wall-clock caps), claimed level, non-triviality rule, assumptions."""

Q, T = "quick", "thorough"


def rapid(name, test, quick, thorough, qs=4, ts=16, qt=300, tt=3600, **kw):
    d = {"name": name, "test": test, "kind": "rapid", "checks": {Q: quick, T: thorough},
         "shards": {Q: qs, T: ts}, "timeout": {Q: qt, T: tt}}
    d.update(kw)
    return d


def enum(name, test, qs=16, ts=16, qt=300, tt=3600, **kw):
    d = {"name": name, "test": test, "kind": "enum", "shards": {Q: qs, T: ts}, "timeout": {Q: qt, T: tt}}
    d.update(kw)
    return d


CHECKS = {
    "C11": {
        "title": "Rsync operations always reconstruct the source and stay within the old files",
        "level": "exploration",
        "technique": "bounded exhaustive enumeration + rapid property-based testing against a reference op replayer",
        "level_text": ("Every case of the listed small sub-spaces is enumerated (exhaustive there); the rest of the stated box "
                       "and the large-content space (4MiB data-op splitting, buffer wrap at drawn phases) are sampled by rapid; in one third of "
                       "the sampled cases the source is read through a reader with generated short reads that may return its last bytes together with io.EOF (the real differ reads from an io.Pipe), and in one third the old files' readers do not end where the files end "
                       "(more bytes follow: files served from one blob, a file appended to since it was signed; GetSize stays exact). "
                       "Held on everything explored; no claim beyond the explored cases."),
        "level_note": "trusted: the reference replay by direct slicing; Go's bytes/crypto; rapid's generator. Large content is sampled.",
        "rule": ("(a) exhaustive enumeration of the listed sub-spaces (alphabet, number and max length of old files, "
                 "max length of new content, block sizes 1..4, every preferred index); (a') rapid sampling of the rest "
                 "of the stated small box; (b) rapid-generated large content for block sizes {1,2,3,7,64,1000,4096,65536} "
                 "assembled from old blocks, shifted blocks and fresh runs sized around 4MiB and the internal buffer size. "
                 "Oracle: reference replay by direct indexing == source, ApplySingle replay == source, op well-formedness. "
                 "Non-trivial: the op list mixes >=1 block range and >=1 non-empty data op, or contains a short-block match. "
                 "Distinct: enumerated cases are distinct by construction; generated ones by SHA-1 of the spec."),
        "assumptions": ["the reference replay (direct slicing of the old files) is the specification of an op list",
                        "rapid's generator explores the large-content space by sampling, not exhaustively"],
        "stages": [
            enum("enum", "TestEnum", qs=16, ts=16, qt=300, tt=3000),
            rapid("small", "TestSmall", 40000, 4000000, qs=2, ts=8, qt=300, tt=3000),
            rapid("large", "TestLarge", 960, 16000, qs=16, ts=16, qt=400, tt=3000),
        ],
    },
    "C01": {
        "title": "Diff then apply reproduces the new build exactly",
        "level": "exploration",
        "technique": "rapid property-based testing: generated build pairs x compression settings, round-trip oracle with an independent tree comparer",
        "level_text": ("Build pairs are generated from a tiny path alphabet with shared high-entropy streams, block-boundary size classes, "
                       "rename/duplicate/swap/chain/prefix/concat/kind-change operations and rare >4MiB files; every registered "
                       "compressor and quality is drawn; in one third of the cases the differ reads the new build through readers that slice their "
                       "reads and may return their last bytes together with io.EOF (as zip-backed pools do); in a quarter the old build's signature is read back from the "
                       "signature stream of a previous diff instead of being computed; in a fifth the output directory already holds longer files at the new build's paths. The verdict is the independent comparison of the freshly applied tree with "
                       "the new build. Sampling, with shrinking; no claim beyond the explored cases."),
        "level_note": "trusted: the harness' own tree writer/reader (os + filepath), the patch decoder used only for class tags.",
        "rule": ("rapid draws (old tree, derivation ops -> new tree, compression). Oracle: WritePatch nil; fresh apply nil; applied tree == new "
                 "tree (paths, kinds, bytes, symlink destinations, no extras). Non-trivial: the decoded patch has >=1 BLOCK_RANGE and >=1 "
                 "non-empty DATA op outside whole-file series, or a whole-file series whose old path differs. Distinct: SHA-1 of the spec."),
        "assumptions": ["gzip levels outside -2..9 are rejected by the compressor itself and counted as skipped",
                        "file modes are not varied (0644/0755 only)"],
        "required_classes": {"quick": ["op:blockrange", "op:data", "op:wholefile-renamed", "comp:gzip", "comp:brotli", "size:=k*64Ki",
                                       "source:last-bytes-with-EOF"],
                             "thorough": ["op:blockrange", "op:data", "op:wholefile-renamed", "comp:gzip", "comp:brotli", "size:=k*64Ki",
                                          "source:last-bytes-with-EOF", "size:>4MiB", "rel:aligned-prefix-of-larger-old", "old:two-files-share-a-block", "op:data-run>=4MiB"]},
        "stages": [rapid("roundtrip", "TestProp", 4800, 256000, qs=16, ts=16, qt=600, tt=5400)],
    },
    "C02": {
        "title": "In-place apply equals fresh apply and leaves the old build intact until commit",
        "level": "exploration",
        "technique": "rapid property-based testing: generated build pairs with path-level relations, pre-commit strong snapshot + post-commit tree comparison, repeated commits",
        "level_text": ("Generated build pairs with rename/swap/chain/duplicate/patched-source relations up-weighted, including paths that change kind "
                       "(file<->dir<->symlink); plain and optimized "
                       "patches. Each case is applied in place 3 times from pristine copies (sampling Go's map iteration orders in the "
                       "commit phase). Oracles: strong snapshot (content, kind, inode, mtime, size, mode) right before Commit equals the "
                       "snapshot before patching; tree after Commit equals the new build with no survivors."),
        "level_note": "map iteration orders are sampled by repetition, not enumerated; the stage folder is a sibling of the build directory as in wharf's tests.",
        "rule": ("rapid draws (old tree, derivation ops -> new tree, compression, optimize?). Non-trivial: the decoded patch has >=1 "
                 "whole-file series to a different path AND (>=1 overlay file or >=1 ghost). Distinct: SHA-1 of the spec."),
        "assumptions": ["one case in four diffs containers whose directory lists are reversed (children before parents, as a container walked from a zip may be): the result must not depend on the order in which a container lists its directories",
                        "in a fifth of the cases the full application is preceded by a whitelisted application of the same patch onto the same bowl object (Bowl.Resume(nil) keeps what is recorded): the commit must still give exactly the new build",
                        "names ending in .butler-rename-N are never generated (implicit precondition of the commit phase)"],
        "required_classes": {"quick": ["containers:directories-listed-children-first", "rel:swap", "rel:chain", "rel:rename-or-dup-without-original", "rel:source-of-rename-also-patched", "commit:overlay", "commit:ghost", "kindchange:d->f", "kindchange:f->d", "kindchange:d->l"],
                             "thorough": ["rel:swap", "rel:chain", "rel:rename-or-dup-without-original", "rel:source-of-rename-also-patched", "commit:overlay", "commit:ghost", "series:bsdiff"]},
        "stages": [rapid("inplace", "TestProp", 10000, 200000, qs=16, ts=16, qt=600, tt=5400)],
    },
    "C07": {
        "title": "Optimizing a patch never changes what it produces",
        "level": "exploration",
        "technique": "rapid property-based testing: generated build pairs (tiny files up-weighted) x optimizer parameters, round-trip oracle fresh and in place",
        "level_text": ("Generated build pairs biased to 0..16-byte files and tiny/empty old files; partitions 0..16, concurrency -1..4, "
                       "ForceMapAll, size limits that exclude files, input and output compression. Oracle: NewContext/Optimize return nil "
                       "without panic; the optimized patch applied fresh and in place equals the new build."),
        "level_note": "a panic inside one of bsdiff's goroutines kills the process; the journalled case is then the reproduction.",
        "rule": ("rapid draws (build pair, compression, optimizer params). Non-trivial: the optimized patch (decoded) contains >=1 BSDIFF "
                 "series. Distinct: SHA-1 of the spec."),
        "assumptions": ["in a third of the cases the pools handed to Optimize have been used before (some bytes, or all, of one old and one new file read through GetReadSeeker): lake.Pool makes no promise about the position of a seeker it hands out again",
                        ],
        "required_classes": {"quick": ["series:bsdiff", "new-file:shorter-than-partitions", "opt:ForceMapAll", "series:bsdiff-against-differently-named-old-file"],
                             "thorough": ["series:bsdiff", "new-file:shorter-than-partitions", "opt:ForceMapAll", "series:bsdiff-against-differently-named-old-file", "series:excluded-by-size-limit"]},
        "stages": [rapid("optimize", "TestProp", 12000, 288000, qs=16, ts=16, qt=600, tt=5400)],
    },
    "C03": {
        "title": "Interrupted patch application resumes from any checkpoint to the same result",
        "level": "fault_enumeration",
        "technique": "rapid-generated patches; per patch, enumeration of checkpoints x lags x damaged tail states, resumed in brand-new patcher/bowl from gob-serialized checkpoints",
        "level_text": ("Per generated patch the harness learns the number N of checkpoints offered to an always-saving consumer, then "
                       "enumerates checkpoints k (all when N<=8, else first/last + sampled), lags {0,1,2,random}, and four tail states "
                       "(as left; in-progress output truncated at a length >= the checkpointed offset; bytes after the checkpointed offset "
                       "overwritten with garbage; later staged files deleted; and, for lag 0, the disk exactly as it was at the instant the checkpoint was handed to the consumer - a copy of the output "
                       "and stage folders taken inside Save, i.e. the process died there and nothing it held in memory reached the disk), up to a per-patch cap. Each resume uses a brand-new "
                       "patcher, bowl and pool and the gob-decoded checkpoint; in a third of the cases the checkpoints handed to Save are kept as objects and serialized only when the session has ended (a later save must not change an earlier checkpoint). Also ShouldSave bit patterns and chains of 2-4 interruptions. "
                       "Oracle: resumed run returns nil and the tree equals the new build; liveness: an uncompressed patch with a streamed "
                       "series of >=4 messages must offer >=1 checkpoint; and a calibrated shape (one 4-6 MiB file cut every two blocks by "
                       "100-200KB of fresh data: >=65 messages, 3-5 MiB patch) must offer >=1 checkpoint under none, gzip (any level) and "
                       "brotli q0/q1 - on the unchanged tree it offers >=32; brotli q>=2 offers only 1-2 and is recorded, not judged."),
        "level_note": "lost fsync (durability) is not modelled: the fault model is 'bytes after the checkpointed offset are arbitrary'; checkpoints and lags beyond the cap are sampled.",
        "rule": ("rapid draws (build pair with 1-2 multi-block heavily edited files, compression, optimized?, fresh|overlay, seed, ShouldSave "
                 "pattern, chain). evaluations = patches, sub_evaluations = sessions judged. Non-trivial: a patch with at least one resume that "
                 "has lag>0 or a damaged tail from a checkpoint inside a file (disk offset > 0). Distinct: SHA-1 of the spec."),
        "assumptions": ["a crash leaves every byte below the checkpointed offset of the in-progress file, and all earlier files, intact",
                        "a crashed run never leaves a file longer than its final length"],
        "required_classes": {"quick": ["ck:in-overlay-file", "ck:in-bsdiff-series", "resume:lag>0", "resume:damaged-tail", "liveness:gzip", "liveness:brotli"],
                             "thorough": ["cell:%s/%s/%s" % (b, o, c) for b in ("fresh", "overlay") for o in ("plain", "optimized") for c in ("none", "gzip", "brotli")]
                                         + ["ck:in-overlay-file", "ck:in-bsdiff-series", "resume:lag>0", "resume:damaged-tail", "schedule:chain>=2", "schedule:pattern"]},
        "stages": [rapid("resume", "TestProp", 480, 9600, qs=16, ts=16, qt=600, tt=7200)],
    },
    "C17": {
        "title": "Partial application by whitelist produces exactly the selected files",
        "level": "exploration",
        "technique": "rapid property-based testing: generated patches x whitelist subsets, recording bowl and recording pool compared with the independently decoded patch",
        "level_text": ("Generated patches (plain/optimized, all compressions) x whitelists (empty, all, singletons, bit patterns). A recording "
                       "bowl must see exactly one GetWriter or Transpose per whitelisted index and none for others; a recording pool may "
                       "only see reads of old files referenced (per the decoded patch) by whitelisted series; GetTouchedFiles == |W|; "
                       "whitelisted files byte-equal to the new build. A dedicated stage builds >2050 files so that a skipped bsdiff "
                       "series targets old index 2049 (the end marker's numeric value). One third of the cases are additionally applied in two "
                       "sessions (stop at a checkpoint inside a multi-edit file, resume from its gob copy in a new patcher with the whitelist set "
                       "again): no call for a non-whitelisted file in either session, touched counts add up to |W|, same output."),
        "level_note": "magic values other than 2049 may exist; the generator is aimed at this one because reading skipFile shows it matters.",
        "rule": ("rapid draws (build pair, compression, optimized?, whitelist mode). Non-trivial: non-empty whitelist and a skipped series "
                 "adjacent to a processed one. Distinct: SHA-1 of the spec."),
        "assumptions": ["stop/resume sub-check, fresh bowls, one case in three: the second session's whitelist no longer has the file the checkpoint was taken in; that file is then not judged, every other selected file is; a refusal (error) of that second session is no verdict - two whitelists for one application are outside the quantifier",
                        "the whitelisted set is {i : map[i] == true}: in a quarter of the cases the map handed to the patcher also carries an explicit false entry "
                        "for every other file (a caller writing wl[i] = needsPatching(i)); the patcher's own test is !whitelist[i]"],
        "required_classes": {"quick": ["whitelist:file-in-progress-dropped-at-resume", "skipped:bsdiff", "skipped:rsync", "skipped:wholefile", "selected:bsdiff", "skipped:bsdiff-target-2049", "whitelist:explicit-false-entries"],
                             "thorough": ["skipped:bsdiff", "skipped:rsync", "skipped:wholefile", "selected:bsdiff", "skipped:bsdiff-target-2049", "skipped:emptyfile"]},
        "stages": [rapid("whitelist", "TestProp", 12000, 256000, qs=16, ts=16, qt=600, tt=5400),
                   rapid("magic", "TestMagic", 12, 200, qs=4, ts=8, qt=600, tt=3000, shrinktime="5s")],
    },
    "C09": {
        "title": "Applying through the safekeeper never yields a silently wrong result",
        "level": "exploration",
        "technique": "rapid property-based testing with generated fault sequences on the old build; oracle: error OR output == new build; undamaged => success",
        "level_text": ("Generated patches (plain/optimized; reuse by block ranges, bsdiff series and whole-file copies) applied with the old build "
                       "read through the signature-checking pool, after generated damage to old files only (bit flips in reused/unreused blocks, "
                       "truncation at block boundaries +-1 / 0 / random, extension inside/to/past the last block, deletion). The model applies "
                       "the same damage in memory to decide damaged vs undamaged. Damaged: error or exactly the new build. Undamaged: nil and new build."),
        "level_note": "the old signature is the stream WritePatch emits when the old build is the 'new' side; damage is to regular files only.",
        "rule": ("rapid draws (build pair, compression, optimized?, 0-2 damages). Non-trivial: a damage lands in a block that some op of the "
                 "decoded patch reads. Distinct: SHA-1 of the spec."),
        "assumptions": ["a third of the cases stop at the 1st-3rd checkpoint (when that many are offered) and resume with a new patcher and fresh bowl but the SAME safekeeper, closed by the first session on its way out; its signature can be fetched once only (a second Open fails) - the stated once-only loading needs no more",
                        "every rsync series of the case's patch is also applied through wsync.Context.ApplyPatch (the channel entry point, operations queued beforehand) with a safekeeper pool of its own over the damaged build: nil only with exactly the new file, no rejection of an undamaged build; a new pool is opened after every error",
                        "one case in ten gives the safekeeper a signature stream cut inside its magic (unreadable under every compression setting): the only verdict then is 'error, or exactly the new build'",
                        ],
        "required_classes": {"quick": ["sessions:stop-and-resume-with-the-same-safekeeper,-signature-fetchable-once", "route:wsync.ApplyPatch-as-well", "reuse:blockrange", "reuse:wholefile", "reuse:bsdiff", "outcome:damaged-rejected", "outcome:undamaged-accepted",
                                        "damage:truncate-at-block-boundary", "damage:extend-inside-last-block"],
                             "thorough": ["reuse:blockrange", "reuse:wholefile", "reuse:bsdiff", "outcome:damaged-rejected", "outcome:undamaged-accepted",
                                          "damage:truncate-at-block-boundary", "damage:extend-inside-last-block", "damage:extend-file-of-exact-block-multiple", "damage:delete"]},
        "stages": [rapid("safekeeper", "TestProp", 8000, 128000, qs=16, ts=16, qt=600, tt=5400)],
    },
    "C08": {
        "title": "Data already present in the old build is not sent again",
        "level": "exploration",
        "technique": "rapid property-based testing with metamorphic byte bounds on the decoded patch (identical / renamed / k-edit builds on unique high-entropy content)",
        "level_text": ("Three generated families on unique high-entropy content (one stream per file, no accidental reuse; the identical and rename families also on zero-filled / "
                       "0x20-filled / alternating constant blocks and with 'twin' old files that differ in one block by +1,-2,+1, i.e. several different blocks per rolling-hash bucket): identical builds; "
                       "renames/duplicates; one file with k in 0..4 recorded edits (overwrite/insert/delete, offsets biased to first/last block "
                       "and block edges, sizes up to 80 blocks so the 4MiB window wraps; one edits case in thirty is an 18-30 MiB file with one small length-changing edit near its start, so that every wrap of the differ's buffer falls into shifted, reusable data). Oracles from the decoded patch and DiffContext: "
                       "FreshBytes+ReusedBytes == new size; FreshBytes == sum of DATA bytes; equal-content file => 0 fresh bytes; edited file => "
                       "fresh <= introduced + (2k+2)*64KiB (the bound the property states). In a quarter of the cases the old build's signature is not "
                       "computed from the directory but read back (pwr.ReadSignature) from the signature stream a previous diff wrote, as butler does with a downloaded signature."),
        "level_note": "the bound is the one stated in the property; overlapping edits are dropped by the generator (they would only loosen it).",
        "rule": ("rapid draws (family, files with sizes, copies/renames, edits). Non-trivial: an edited file of >= 8 blocks with >= 1 "
                 "length-changing edit (where a de-synchronised rolling hash would blow the bound); for the identical/rename families a "
                 "multi-block file that is kept, renamed or duplicated. Distinct: SHA-1 of the spec."),
        "assumptions": ["renames family, a quarter of the cases: two files trade places (each path stays and gets the other's content); a quarter of those have equal sizes of 4-6 MiB",
                        "high-entropy streams do not collide on 64KiB blocks by chance",
                        "in a fifth of the cases the same DiffContext writes the patch twice (a retry on a new writer): wharf's FreshBytes/ReusedBytes are cumulative, so the second call is "
                        "judged by the counters' increase, which must equal the first call's, and by byte-equal patches"],
        "required_classes": {"quick": ["renames:two-files-trade-places", "family:identical", "family:renames", "edits:length-changing", "edits:k=3", "old-signature:read-back-from-a-signature-stream",
                                       "content:blocks-with-weak-hash-0", "old:two-files-differing-in-a-block-with-the-same-weak-hash", "differ:same-DiffContext-used-twice"],
                             "thorough": ["family:identical", "family:renames", "edits:length-changing", "edits:k=4", "edited-file:>4MiB"]},
        "stages": [rapid("freshbytes", "TestProp", 3600, 96000, qs=16, ts=16, qt=600, tt=5400)],
    },
    "C04": {
        "title": "A build validates against its own signature, however that was produced",
        "level": "exploration",
        "technique": "rapid property-based testing: differential (diff-time vs stand-alone signature) plus a reference hash model, then validation of the pristine build",
        "level_text": ("Generated builds with a size sweep (block-boundary classes, >4MiB, many small files, empty-only trees, symlinks, empty "
                       "dirs) x signature compression x old build (empty, identical, unrelated); in 1/3 of the cases the producers read the source through "
                       "readers that return short reads, yield, and may return their last bytes together with io.EOF. Content includes full blocks "
                       "of one even byte value (weak hash 0 without being zeroes). The signature written at diff time is read back "
                       "and compared with the walked container (proto.Equal), with ComputeSignature element-wise, and with a reference model "
                       "(own weak hash + crypto/md5 per 64KiB slice, one hash for an empty file, short last block). Validation of the pristine "
                       "build: wounds-file mode nil / no file / no wounds; AssertValid nil."),
        "level_note": "trusted: crypto/md5, the reference weak hash written from the format description.",
        "rule": ("rapid draws (new tree, old-build kind, compression). Non-trivial: a file with >=2 blocks and a short tail, or an empty file "
                 "beside a non-empty one. Distinct: SHA-1 of the spec."),
        "assumptions": ["a third of the cases end with three fail-fast validations of the pristine build at the same time (diff-time, stand-alone, diff-time signature), each with its own context, twice each: all must pass",
                        "one case in four signs stand-alone over a pool that is not handed over fresh: its file 0 has been opened and 4 bytes of it read (builds without files excepted)",
                        "one case in eight is a single-file build: the build is one regular file, walked, signed, diffed and validated through its path (pools.New; the harness opens every build through pools.New, as butler does)",
                        ],
        "required_classes": {"quick": ["validation:three-at-the-same-time-in-one-process", "producer:stand-alone-on-a-used-pool", "file:exact-block-multiple", "tree:empty-file-beside-non-empty", "comp:gzip", "comp:brotli", "tree:no-files"],
                             "thorough": ["file:exact-block-multiple", "tree:empty-file-beside-non-empty", "comp:gzip", "comp:brotli", "tree:no-files", "tree:symlinks"]},
        "stages": [rapid("signature", "TestProp", 4800, 192000, qs=16, ts=16, qt=600, tt=5400, schedule_dependent=True)],
    },
    "C05": {
        "title": "Validation reports every deviation from the signed build and locates it",
        "level": "exploration",
        "technique": "rapid property-based testing with generated fault sequences; expected deviations observed independently through the OS and compared with the parsed wounds file and the fail-fast verdict",
        "level_text": ("Generated builds + 0-4 damages (bit flips at first/last byte of a block or of the file, truncation/extension around block "
                       "boundaries, emptied/deleted entries, content in an expected-empty file, kind swaps incl. subtree-hiding ones, retargeted "
                       "symlinks, three bytes changed so that the block keeps its rolling hash, contiguous ranges xor-ed over several blocks). A second stage puts 1-2 scrambled "
                       "ranges of up to 150 blocks into a 66-150 block file - more than the 64 blocks (4 MiB) one aggregated wound may hold. In a quarter of the cases the signature is not the directly computed one but read back "
                       "(pwr.ReadSignature) from the signature stream a diff wrote. An independent observer (Lstat/ReadFile per signed entry) lists deviations. Oracles, both directions: deviating => "
                       "error or >=1 wound + HasWounds, every differing block offset inside a FILE wound of that index, shorter/longer/missing files "
                       "and deviating dirs/symlinks named by a wound, every wound well-formed (known kind, index in range, 0<=start<=end); "
                       "identical => nil, no wounds; fail-fast errs iff deviating."),
        "level_note": "differing offsets are checked at the first and last differing byte of every 64KiB block; what 'deviates' means is what the OS shows at the signed paths.",
        "rule": ("rapid draws (tree, damage sequence). Non-trivial: a deviating directory whose damage includes a flip at a block-boundary class or "
                 "a length change crossing a block boundary. Distinct: SHA-1 of the spec."),
        "assumptions": ["every case is also validated in the default mode (no wounds file, no fail-fast, no healer: the printer consumer), half of the time with a zero-value state.Consumer, half with one that has OnMessage; verdict: HasWounds() iff the directory deviates (or an error)"],
        "required_classes": {"quick": ["printer:zero-value-consumer", "dir:identical", "dir:deviates", "damage:hides-subtree", "damage:length-change-crossing-block-boundary", "damage:flip-at-block-boundary-class",
                                       "damage:same-weak-hash", "damage:contiguous-2..64-blocks", "damage:contiguous->64-blocks"],
                             "thorough": ["dir:identical", "dir:deviates", "damage:hides-subtree", "damage:length-change-crossing-block-boundary", "damage:flip-at-block-boundary-class", "damage:retarget"]},
        "stages": [rapid("wounds", "TestProp", 28800, 768000, qs=16, ts=16, qt=600, tt=5400),
                   rapid("longrun", "TestLong", 320, 9600, qs=16, ts=16, qt=600, tt=5400, shrinktime="10s")],
    },
    "C06": {
        "title": "Healing from an archive restores any damaged directory to the signed build",
        "level": "exploration",
        "technique": "rapid property-based testing with generated fault sequences and schedule perturbation (GOMAXPROCS, consumer-callback jitter, repetition); independent post-heal observer",
        "level_text": ("C05's damage generator plus 'directory empty' and 'directory missing'; archive = archiver.CompressZip of the pristine build (stored entries) or, "
                       "in one third of the cases, an ordinary deflate-compressed zip of it written by the standard library, whose readers return their last bytes together with io.EOF; in a quarter the signature is read back from a signature stream instead of computed. "
                       "Validate{HealPath} must return nil within the watchdog; afterwards an independent observer must find every signed entry with "
                       "the right kind/bytes/destination (extras allowed) and AssertValid must pass. An already valid directory must be untouched "
                       "(strong snapshot) and TotalHealed()==0. GOMAXPROCS in {1,2,4,16}, sleeps/yields injected through the Consumer callbacks, 2 repetitions."),
        "level_note": "interleavings of validator, wound channel and healer are sampled, not enumerated.",
        "rule": ("rapid draws (tree, damage sequence, GOMAXPROCS, jitter bytes). Non-trivial: >=1 file healed and >=1 directory or symlink wound. "
                 "Distinct: SHA-1 of the spec."),
        "assumptions": ["a third of the cases keep the healing archive under a name that does not end in .zip (build-48213, build.zip.part, archive.bin): 'archive,<path>' says what the file is, not its name",
                        "a quarter of the cases heal a second build (three files of 70000-200000 bytes, directory missing) again and again through another ValidatorContext in the same process while the case's directory is healed; both must come out right",
                        "the healing archive is a zip of the pristine build (wharf's own stored zip, as in its scenario tests, or a standard deflate zip)"],
        "required_classes": {"quick": ["archive:name-does-not-end-in-.zip", "process:another-build-healed-at-the-same-time", "dir:already-valid", "dir:healed", "archive:deflate-zip", "damage:hides-subtree", "damage:kind-swap:d->link", "damage:kind-swap:d->file"],
                             "thorough": ["dir:already-valid", "dir:healed", "damage:hides-subtree", "damage:kind-swap:d->link", "damage:kind-swap:d->file", "damage:whole-directory-delete", "damage:whole-directory-empty"]},
        "stages": [rapid("heal", "TestProp", 9600, 192000, qs=16, ts=16, qt=600, tt=5400, schedule_dependent=True)],
    },
    "C16": {
        "title": "Validation always terminates and a clean verdict is never caused by interruption",
        "level": "exploration",
        "technique": "rapid property-based testing over damage x consumer x cancellation instant x GOMAXPROCS with a watchdog as termination oracle and an independent validity verdict",
        "level_text": ("Generated builds + damage (including a stage with >1024 wounds: 1100-2100 missing dirs/symlinks or damaged small files, and "
                       "damage only in the last file; and one file of 66-96 MiB - more blocks than the wound channel has slots - followed by a small one) x consumer (fail-fast, wounds file writable/unwritable, healer with good/partial/missing "
                       "archive, printer) x cancellation instant (before start, inside the n-th consumer callback, after a drawn delay, never) x "
                       "GOMAXPROCS; in one case of eight the signature lacks its last 1-3 block hashes (a signature file cut at a message boundary reads back without error), so the file worker fails. Oracles: Validate returns on the calling goroutine within the watchdog (a hang is confirmed by a second run "
                       "in a fresh process with a doubled deadline and goroutine stacks inside wharf); if fail-fast returns nil, an independent "
                       "observer says the directory is identical to the signed build; if a validation that heals from a complete archive returns nil, "
                       "the directory observed afterwards is identical to the signed build, cancelled or not (one case in twelve: only the last "
                       "file, of 300 KiB-8 MiB, is damaged, so the healer is still busy when the scan is over)."),
        "level_note": "interleavings are sampled; goroutines left inside wharf/pwr after return are counted in the evidence (coverage.extra), not judged.",
        "rule": ("rapid draws (tree, damages, consumer, cancellation, GOMAXPROCS). Non-trivial: a damaged directory validated with a cancelled "
                 "context or a consumer that failed. Distinct: SHA-1 of the spec."),
        "assumptions": ["a case that needs more than 60s (120s for the >1024-wound stage) is treated as a hang candidate; normal cases take milliseconds to ~1s"],
        "required_classes": {"quick": ["cancel:before-start", "cancel:in-callback", "cancel:after-delay", "consumer:failfast", "consumer:heal-partial", "tree:>1024-entries", "tree:file->1024-blocks"],
                             "thorough": ["cancel:before-start", "cancel:in-callback", "cancel:after-delay", "consumer:failfast", "consumer:heal-partial", "consumer:woundsfile-unwritable", "tree:>1024-entries", "many-damage:last-file"]},
        "stages": [rapid("terminate", "TestProp", 12000, 192000, qs=16, ts=16, qt=600, tt=5400, schedule_dependent=True),
                   rapid("manywounds", "TestMany", 96, 3200, qs=16, ts=16, qt=600, tt=5400, schedule_dependent=True, shrinktime="10s")],
    },
    "C18": {
        "title": "Writing through a validating pool checks every block regardless of write sizes",
        "level": "exploration",
        "technique": "rapid property-based testing against a first-bad-block / wound-tiling reference model over generated contents and write slicings",
        "level_text": ("1-3 files per pool (sizes around block multiples, empty) x written content (equal, flipped in a set of blocks, truncated, "
                       "block-aligned prefix, extended, unrelated, one block dropped or doubled so that later blocks equal a neighbouring signed block, three neighbouring "
                       "bytes changed by +1,-2,+1 so that the block differs but keeps its rolling hash) x write slicing (1..50, 1..3 blocks, boundary-straddling, bytewise; "
                       "in 1/3 of the files the caller keeps writing the rest after a failed Write and only then closes) x mode. "
                       "Error mode: failure iff the model finds a first bad block b; the failing call is the one completing b; the inner pool "
                       "received exactly written[:b*64KiB] (everything when none). Wound modes (plain and with the aggregate filter): markers in "
                       "offset order, tiling [0, min(written, signed)) on the signed block grid without gaps, FILE wounds exactly on differing blocks. "
                       "Second stage: the pool driven by its real caller - a generated patch applied through a pool bowl over a ValidatingPool "
                       "with the new build's signature, old build optionally damaged: whatever reaches the underlying pool must be the signed "
                       "content or a block-aligned prefix of it; undamaged => nil and complete; a recording bowl keeps the data handed to the pool bowl per file "
                       "(Write payloads, or the old file a Transpose copies): if it has a bad block by the model, some call into the bowl (Transpose, Write, Close) must return an "
                       "error, and if a call into the bowl failed the application must not return nil - a rejection nobody hears of checks nothing. Third stage: 2-6 files of one pool (1-24 blocks each, some with one flipped block) whose writers are opened one after the other and then written "
                       "at the same time, one goroutine per file: every writer must judge its own file exactly as it would alone (error and wound mode); the same stage also runs under the race detector."),
        "level_note": "wounds emitted for blocks beyond the signed length are outside the statement and ignored by the tiling oracle.",
        "rule": ("rapid draws (files, written variants, slicings, mode). Non-trivial: a write that straddles a block boundary together with a bad "
                 "block that is not the first (error mode), or a differing block that is not the first (wound modes). Distinct: SHA-1 of the spec."),
        "assumptions": ["wound modes, one file in five: the inner pool's writer takes every byte and then fails its Close; the wounds and markers of the file are owed all the same (whether Close reports the error is not judged here)"],
        "required_classes": {"quick": ["inner-pool:close-fails", "mode:error", "mode:wounds", "mode:aggregate", "bad-block:not-first", "bad-block:beyond-signed-count", "bad-block:same-weak-hash", "write:straddles-block-boundary"],
                             "thorough": ["mode:error", "mode:wounds", "mode:aggregate", "bad-block:not-first", "bad-block:beyond-signed-count", "write:straddles-block-boundary"]},
        "stages": [rapid("validatingpool", "TestProp", 48000, 2000000, qs=16, ts=16, qt=600, tt=5400),
                   rapid("viapatcher", "TestViaPatcher", 4800, 192000, qs=16, ts=16, qt=600, tt=5400),
                   rapid("parallel", "TestParallel", 1600, 64000, qs=8, ts=16, qt=600, tt=5400, schedule_dependent=True, shrinktime="10s"),
                   rapid("parallelrace", "TestParallel", 240, 4800, qs=8, ts=16, qt=900, tt=5400, race=True, schedule_dependent=True, shrinktime="10s")],
        "replay_race": False,
    },
    "C13": {
        "title": "Messages survive any compression setting; reader checkpoints resume exactly",
        "level": "exploration",
        "technique": "rapid property-based testing: write/read round trip of generated message sequences x compressors, and resume-from-every-popped-checkpoint differential",
        "level_text": ("Generated sequences of 0..60 messages of mixed types (SyncOp data/range/end, SyncHeader, bsdiff Control, BlockHash) with body "
                       "sizes 0, small, 32KiB-8..32KiB+1, powers of two +-1, >4MiB (rare), compressible or not, x {none, gzip -2..9, brotli 0..11} x "
                       "WantSave bit patterns; 1/6 of the messages have every field at its default (0 bytes on the wire) and in 3/4 of the cases "
                       "the reader reuses one message object per type, as the patcher does; in half of the cases the caller looks for a checkpoint only "
                       "before some messages (drawn pattern), so messages are read between the arrival of the source checkpoint and the pop; in a quarter the reader is rewound once with Resume(nil) after k messages and reads "
                       "the sequence again (checkpoints popped before and after must all work); in a third the reader a checkpoint is handed to has already read 1-3 messages, as the patcher's has; in a fifth the finished writer is closed a second time and two more streams "
                       "with the same setting are then written at the same time, interleaved like WritePatch's patch and signature wires, and each must read back as its own sequence. Oracles: read-back proto.Equal to what was written, then io.EOF; every popped checkpoint is "
                       "gob-encoded, decoded, handed to a brand-new reader over the same bytes, which must yield exactly messages i.. and EOF, "
                       "where i is the index of the first message not yet returned at pop time (including i == number of messages)."),
        "level_note": "decompressor internals (savior) are exercised only through wharf's reader.",
        "rule": ("rapid draws (compression, message list, save pattern). evaluations = sequences, sub_evaluations = 1 + checkpoints resumed. "
                 "Non-trivial: a sequence with a checkpoint whose source offset lags the message offset under a real compressor. Distinct: SHA-1 of the spec."),
        "assumptions": ["a quarter of the cases put the stream behind 1-100000 other bytes in its source; every reader is then built on the source resumed at that offset"],
        "required_classes": {"quick": ["source:stream-starts-behind-other-bytes", "checkpoint:after-last-message", "checkpoint:source-lags-message-offset", "checkpoints:popped-some-messages-later", "reader:rewound-with-Resume(nil)", "second-reader:had-read-messages-before-Resume", "msg:around-32KiB-buffer", "comp:gzip", "comp:brotli"],
                             "thorough": ["checkpoint:after-last-message", "checkpoint:source-lags-message-offset", "checkpoints:popped-some-messages-later", "msg:around-32KiB-buffer", "msg:>4MiB", "comp:gzip", "comp:brotli"]},
        "stages": [rapid("wire", "TestProp", 9600, 320000, qs=16, ts=16, qt=600, tt=5400)],
    },
    "C14": {
        "title": "An overlay turns the old file into the new file, whatever the write pattern",
        "level": "exploration",
        "technique": "rapid property-based testing against a reference overlay replayer, over run-structured (old,new) pairs x write slicings x flush/session breaks",
        "level_text": ("(old,new) generated as runs of equal/differing bytes with run lengths {0..40, 8KiB-42..8KiB+58, 128KiB+-1, up to 140KiB}, new "
                       "shorter/longer/empty, on high-entropy AND periodic/constant content (on random data a mis-positioned reader degrades to "
                       "FRESH and stays right; on periodic data it shows). Writes sliced 1..100 / 1..300KiB / window-sized / bytewise; after each "
                       "write - and optionally right after creation, before any data - nothing, Flush, or Flush + a new session resumed from the reported ReadOffset/OverlayOffset with the stale overlay "
                       "tail kept or cut. Oracles: an independent decoder + reference replay == new; OverlayPatchContext.Patch onto a copy of old + "
                       "truncate == new; ReadOffset after a flush == bytes consumed; SKIP ops only cover bytes where old == new. "
                       "Second stage: the same generated cases driven through the writer's real caller, the overlay bowl (GetWriter, EntryWriter.Resume/Save/Write/"
                       "Finalize, Commit): after a Save the session either dies at once or goes on for one more write (and possibly one more Save) before it dies; a "
                       "brand-new bowl resumes from the gob copy of the saved checkpoint - the bowl, not the harness, positions the old-file reader and the staged "
                       "overlay file; a second overlaid file is part of the same commit, so the one applier context of Commit is used twice. Oracles: Save/Resume/Tell offsets == bytes written; "
                       "both committed files == new. The direct stage likewise applies every overlay to two copies of the old file with ONE OverlayPatchContext."),
        "level_note": "the old-file reader never returns short reads (bytes.Reader / os.File), like the readers the overlay bowl uses.",
        "rule": ("rapid draws (entropy, runs, cuts, slices, actions). Non-trivial: the overlay contains >=1 SKIP and >=1 FRESH and the run had a "
                 "flush or a session break. Distinct: SHA-1 of the spec."),
        "assumptions": ["bowl stage, a quarter of the cases: a first attempt at the file on the same bowl object writes 1-300 KiB and is given up (Close without Finalize, no checkpoint), then the file is started over; both stages, one case in five: the new content lost a prefix of 1 byte - 384 KiB (window-sized ones up-weighted)",
                        "direct stage, a third of the cases: some writes (drawn pattern) are not Write calls but io.Copy from a reader that has nothing but Read, so io.Copy uses whatever the writer offers (ReadFrom if it has one, 32 KiB Write calls if not)",
                        "at most 24 sessions per case (each allocates two 128KiB buffers)",
                        "bowl stage, a quarter of the cases: the old file on disk is longer than the old build's container says (appended to after install); the overlay is computed against and applied to what is on disk"],
        "required_classes": {"quick": ["new:lost-a-prefix", "feed:io.Copy-after-other-writes", "op:skip", "op:fresh", "sessions:>1", "flush:some", "entropy:periodic", "new:shorter", "new:longer", "bowl:session-wrote-after-the-checkpoint-it-is-resumed-from"],
                             "thorough": ["op:skip", "op:fresh", "sessions:>1", "flush:some", "entropy:periodic", "entropy:constant", "new:shorter", "new:longer", "new:empty"]},
        "stages": [rapid("overlay", "TestProp", 16000, 400000, qs=16, ts=16, qt=600, tt=5400),
                   rapid("viabowl", "TestViaBowl", 8000, 160000, qs=16, ts=16, qt=600, tt=5400)],
    },
    "C12": {
        "title": "A bsdiff series applied to the old file yields the new file",
        "level": "exploration",
        "technique": "bounded exhaustive enumeration + rapid property-based testing against a reference bsdiff applier; rapid state-machine-style op sequences for the read cache against a []byte model",
        "level_text": ("(a) exhaustive: alphabet 2, old and new up to 6 (thorough: 8) bytes, partitions 0..3 (thorough 0..4); (b) rapid: lengths to "
                       "3MiB, periodic and high-entropy, new = edited old or unrelated, old/new empty or shorter than the partition count, "
                       "partitions 0..16, concurrency -1..4, GOMAXPROCS {1,2,16}; half of the enumerated and a third of the generated cases (up to 512 KiB) run on a DiffContext that has just "
                       "diffed another pair (the two strings with roles swapped), as rediff uses one context for all files of a patch; (c) split point j: controls j.. applied from the recorded OldOffset "
                       "in a brand-new IndividualPatchContext; (d) lrufile op sequences (Seek x3 whences incl. out-of-range, Read, Reset) for chunk "
                       "sizes 1..70 and capacities 1..8 against a []byte model; (e) hand-built valid control series over a 40MiB old file (beyond "
                       "the patcher's 32MiB cache) with far seeks. Oracles: exactly one end-of-series message, last; sum(add+copy)==len(new); "
                       "reference applier == new; PatchContext.Patch == new; two independent PatchContexts applying the series at the same time (yielding writers) == new each, also under the race detector; "
                       "resumed remainder equal; cache bytes/offsets == model."),
        "level_note": "the bsdiff worker pipeline's schedules are sampled via GOMAXPROCS only; a panic inside its goroutines kills the process and is reported from the journal.",
        "rule": ("enumerated cases are distinct by construction; generated ones by SHA-1 of the spec. Non-trivial: >=2 controls with a non-zero "
                 "seek (diff stages); an op sequence that touches more chunks than the cache holds (lrufile); >=2 steps (far seeks)."),
        "assumptions": ["half of the used DiffContexts have diffed an unrelated, somewhat longer pair (non-zero adds all along) instead of the same pair with roles swapped; whether an enumerated case runs on a used context is decided from its lengths and first bytes",
                        "old-file readers never return short reads (bytes.Reader), the contract lrufile documents",
                        "in two cases out of three (decided from the case alone) the differ gets seekable readers handed over at a non-zero position, behind a header: 'old' and 'new' are whatever remains to be read"],
        "required_classes": {"quick": ["old:empty", "new:empty", "new:shorter-than-partitions", "old:shorter-than-partitions", "cache:evictions", "seek:out-of-range", "old:>32MiB-cache"],
                             "thorough": ["old:empty", "new:empty", "new:shorter-than-partitions", "old:shorter-than-partitions", "cache:evictions", "seek:out-of-range", "old:>32MiB-cache", "size:>1MiB"]},
        "replay_race": False,
        "stages": [enum("enum", "TestEnum", qs=16, ts=16, qt=600, tt=5400),
                   rapid("random", "TestRandom", 1600, 96000, qs=16, ts=16, qt=600, tt=5400),
                   rapid("randomrace", "TestRandom", 160, 3200, qs=8, ts=16, qt=900, tt=5400, race=True, schedule_dependent=True, shrinktime="10s"),
                   rapid("lrufile", "TestLru", 40000, 4800000, qs=4, ts=16, qt=600, tt=5400),
                   rapid("farseeks", "TestFar", 8, 160, qs=4, ts=8, qt=600, tt=5400, shrinktime="10s")],
    },
    "C10": {
        "title": "Malformed patch/signature/overlay streams yield an error, never a crash",
        "level": "exploration",
        "technique": "truncation enumeration + rapid structured mutation of decoded message lists (re-framed, re-compressed) + Go native coverage-guided fuzzing (thorough tier); oracle: no panic, returns within a watchdog",
        "level_text": ("Corpus: valid streams from three small build pairs (plain and optimized patch, signature, overlay). (1) every byte-level "
                       "truncation of every corpus stream under none/gzip/brotli framing (streams > 6000 bytes: first 2048, last 128, +-3 around "
                       "every message boundary, stride); (2) structured mutation of the decoded message list - indices/spans/lengths/seeks set to "
                       "hostile constants (-1, 0, 1, n-1..n+2, 2049, 2^31, 2^40, 2^62, -2^63, 2^63-1), unknown op/series types, series kinds swapped, "
                       "end markers dropped/duplicated/inserted, messages dropped/duplicated/reordered/cut, add/copy/data lengths changed, fewer or "
                       "more block hashes - re-framed and re-compressed so framing stays valid, containers never mutated; (3) thorough tier: go "
                       "test -fuzz on the uncompressed byte stream for 4 targets, inputs violating the stated precondition discarded and counted. "
                       "Targets: patcher.New+Resume+Commit (fresh bowl in a temp dir, dry bowl; and - truncations only - Resume from a checkpoint that an application of the intact stream under "
                       "the same framing handed out, provided what the checkpoint resumes from lies inside the truncated stream), rediff.NewContext+Optimize, ReadSignature+"
                       "ComputeHashInfo+ValidateAsError, OverlayPatchContext.Patch onto a temp file. Oracle: error or nil, never a panic "
                       "(recover in-process, journal for goroutine panics), returns within 60s (watchdog + confirmation run)."),
        "level_note": "native fuzzing cannot be pinned to a seed; its saved crashers are the reproducible unit (they replay through ./check C10 --replay).",
        "rule": ("evaluations = streams fed to a target. Non-trivial: a truncated or mutated stream whose mutation lies behind the containers (the "
                 "target must handle ops to reach it). Distinct: enumerated prefixes by construction, mutations by SHA-1 of the spec."),
        "assumptions": ["one mutation in eight on patch streams replaces the whole series of a file (sync header .. end marker) by a syntactically complete series of the other kind (bsdiff header, optional control of 0-70000 bytes, Eof control, end marker / optional data op, end marker)",
                        "the two containers in a stream are well-formed and no message declares a length beyond the stream (the property's own precondition)",
                        "the resume target is fed truncated streams only: behind dropped/duplicated/resized messages a resumed reader starts between message boundaries, where arbitrary bytes read as a length prefix (outside the precondition); "
                        "checkpoints that resume from beyond the end of the stream belong to another stream and are skipped (savior's in-memory seek source, which the harness uses, panics on them; that is neither wharf nor in the quantifier)"],
        "required_classes": {"quick": ["target:apply-fresh", "target:apply-resume", "target:optimize", "target:signature", "target:overlay", "mutation:set:fileIndex", "framing:compressed", "truncation:every-prefix"],
                             "thorough": ["target:apply-fresh", "target:optimize", "target:signature", "target:overlay", "mutation:set:fileIndex", "framing:compressed", "truncation:every-prefix"]},
        "stages": [enum("truncate", "TestTruncate", qs=16, ts=16, qt=900, tt=5400),
                   rapid("mutate", "TestMutate", 16000, 960000, qs=16, ts=16, qt=600, tt=5400)],
        "fuzz": {"targets": ["FuzzApplyFresh", "FuzzOptimize", "FuzzSignature", "FuzzOverlay"], "seconds": 240, "workers": 4},
    },
    "C15": {
        "title": "Diffing is deterministic and free of data races",
        "level": "exploration",
        "technique": "rapid property-based testing: repeated runs under generated schedule perturbation compared byte for byte; the same harness under the Go race detector",
        "level_text": ("Generated build pairs (incl. files sharing blocks and a 'tie' shape: a new file made of two equally large old files) x "
                       "compression. Per case 4 runs of WritePatch with GOMAXPROCS in {1,2,3,16}, a source pool whose readers return generated "
                       "short reads and yield/sleep at generated points, and yielding patch/signature writers; in a third of the cases a diff of the same pair is cancelled after the reference run while one of its source reads is stalled, and the stalled read is released while the "
                       "next measured run is writing (a diff that was given up must not influence later ones); then two diffs (the pair and the reversed pair) running concurrently in the same process, each compared "
                       "with its solo bytes, then 3 runs of Optimize with identical parameters. The source pool's readers also return their last "
                       "bytes together with io.EOF in half of the cases. Oracles: byte equality of patch, signature and optimized output across runs; a -race build of the "
                       "same harness must report nothing (GORACE=halt_on_error so the journalled case is the one that raced)."),
        "level_note": "goroutine schedules are sampled (GOMAXPROCS, injected yields/sleeps/short reads), not enumerated; a race needing one specific interleaving inside wharf's own goroutines may be missed.",
        "rule": ("rapid draws (build pair, compression, jitter bytes, optimizer partitions). evaluations = cases, sub_evaluations = diff/optimize "
                 "runs compared. Non-trivial: a new build with >=2 files of >=3 blocks. Distinct: SHA-1 of the spec."),
        "assumptions": ["the second of the two rounds of concurrent diffs gives both diffs the same CompressionSettings object; it must be unchanged afterwards"],
        "required_classes": {"quick": ["jitter:on", "optimized:bsdiff-series", "comp:gzip", "comp:brotli"],
                             "thorough": ["jitter:on", "optimized:bsdiff-series", "comp:gzip", "comp:brotli"]},
        "replay_race": False,
        "stages": [rapid("determinism", "TestProp", 640, 8000, qs=16, ts=16, qt=900, tt=5400, schedule_dependent=True, shrinktime="30s"),
                   rapid("race", "TestProp", 96, 1600, qs=16, ts=16, qt=900, tt=5400, race=True, schedule_dependent=True, shrinktime="10s")],
    },
    "C19": {
        "title": "Archive then extract gives the same tree for any concurrency and resume point",
        "level": "fault_enumeration",
        "technique": "rapid property-based testing of zip/tar round trips with a gated io.ReaderAt that constructs out-of-order completion, plus enumeration of crash points in a re-executed child process; race-detector stage",
        "level_text": ("Generated trees (nested and empty dirs, empty files, symlinks, many small files, one large file among small ones; names mostly from a tiny alphabet, rarely odd but legal "
                       "ones: consecutive dots, leading/trailing dot, blank, non-ASCII, #, %41); zip "
                       "(archiver.CompressZip with stored entries, or - one third - containerarchiver.CompressZip from the walked container with deflated entries) x "
                       "Concurrency in {-1, 0, 1..16}; tar; GOMAXPROCS 1/2/3 in a quarter of the ungated cases, and a stage whose processes are confined to ONE usable CPU "
                       "(taskset; runtime.NumCPU()==1, where 'all cores but one' is zero). The io.ReaderAt handed to ExtractZip delays the first data read of a chosen entry until N "
                       "other entries have completed, so out-of-order completion is constructed, not hoped for. Crash stage: the test binary "
                       "re-executes itself, runs ExtractZip with a resume file and calls os.Exit inside the j-th OnEntryDone, for every j (capped "
                       "at 10 per case: first 4, last 2, 4 spread); the parent restarts the extraction with the same resume file (same or other "
                       "worker count). Oracles: independent tree comparison with the source; ExtractResult counts == numbers of dirs/files/symlinks; "
                       "after crash + restart the tree is complete; a -race build of the round-trip stage reports nothing."),
        "level_note": "worker schedules beyond the constructed gate are sampled; the crash is a process exit inside the completion callback (after the resume file write), not a power loss.",
        "rule": ("rapid draws (tree, format, workers, gate; crash stage: + restart workers). sub_evaluations = crash points exercised. Non-trivial: "
                 ">=2 workers with a constructed out-of-order completion (round trip); a crash while a gated lower-index entry is in flight "
                 "(crash stage). Distinct: SHA-1 of the spec."),
        "assumptions": ["a quarter of the plain zip round trips are resumable (ResumeFrom set) with a resume file that is absent, empty, four zero bytes, '3x' or white space: nothing has been extracted, so the whole tree and the full counts are owed",
                        "the destination directory exists and is empty, as the statement says"],
        "required_classes": {"quick": ["resume-file:present-but-holds-no-number", "format:tar", "format:zip", "schedule:constructed-out-of-order-completion", "crash:with-in-flight-lower-index-entry", "tree:one-large-among-small", "workers:-1", "workers:0", "gomaxprocs:1", "env:one-usable-cpu", "zip:containerarchiver-deflate"],
                             "thorough": ["format:tar", "format:zip", "schedule:constructed-out-of-order-completion", "crash:with-in-flight-lower-index-entry", "tree:one-large-among-small", "workers:-1", "workers:16"]},
        "stages": [rapid("roundtrip", "TestProp", 4800, 192000, qs=16, ts=16, qt=600, tt=5400, schedule_dependent=True),
                   rapid("crash", "TestCrash", 480, 19200, qs=16, ts=16, qt=900, tt=5400, schedule_dependent=True, shrinktime="20s"),
                   rapid("onecpu", "TestOneCPU", 640, 19200, qs=8, ts=16, qt=600, tt=5400, cpus=1, schedule_dependent=True, shrinktime="10s"),
                   rapid("race", "TestProp", 320, 4800, qs=16, ts=16, qt=900, tt=5400, race=True, schedule_dependent=True, shrinktime="10s")],
    },
}
