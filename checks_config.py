"""Per-property configuration of the driver: stages (test function, engine, shards, case
budgets per tier, wall-clock caps), claimed level, non-triviality rule, assumptions."""

Q, T = "quick", "thorough"


def rapid(name, test, quick, thorough, qs=4, ts=16, qt=300, tt=3600, **kw):
    d = {"name": name, "test": test, "kind": "rapid", "checks": {Q: quick, T: thorough},
         "shards": {Q: qs, T: ts}, "timeout": {Q: qt, T: tt}}
    d.update(kw)
    return d


def enum(name, test, qs=8, ts=16, qt=300, tt=3600, **kw):
    d = {"name": name, "test": test, "kind": "enum", "shards": {Q: qs, T: ts}, "timeout": {Q: qt, T: tt}}
    d.update(kw)
    return d


CHECKS = {
    "C11": {
        "title": "Rsync operations always reconstruct the source and stay within the old files",
        "level": "exploration",
        "technique": "bounded exhaustive enumeration + rapid property-based testing against a reference op replayer",
        "level_text": ("Every case of the listed small sub-spaces is enumerated (exhaustive there); the rest of the stated box "
                       "and the large-content space (4MiB data-op splitting, buffer wrap at drawn phases) are sampled by rapid. "
                       "Held on everything explored; no claim beyond the explored cases."),
        "level_note": "trusted: the reference replay by direct slicing; Go's bytes/crypto; rapid's generator. Large content is sampled.",
        "rule": ("(a) exhaustive enumeration of the listed sub-spaces (alphabet, number and max length of old files, "
                 "max length of new content, block sizes 1..4, every preferred index); (a') rapid sampling of the rest "
                 "of the stated small box; (b) rapid-generated large content for block sizes {1,2,3,7,64,1000,4096,65536} "
                 "assembled from old blocks, shifted blocks and fresh runs sized around 4MiB and the internal buffer size. "
                 "Oracle: reference replay by direct indexing == source, ApplySingle replay == source, op well-formedness. "
                 "Non-trivial: the op list mixes >=1 block range and >=1 non-empty data op, or contains a short-block match. "
                 "Distinct: enumerated cases are distinct by construction; generated ones by SHA-1 of the spec."),
        "assumptions": ["the reference replay (direct slicing of the old files) is the specification of an op list",
                        "rapid's generator explores the large-content space by sampling, not exhaustively"],
        "stages": [
            enum("enum", "TestEnum", qs=8, ts=16, qt=300, tt=3000),
            rapid("small", "TestSmall", 40000, 2000000, qs=2, ts=8, qt=300, tt=3000),
            rapid("large", "TestLarge", 480, 6000, qs=8, ts=16, qt=400, tt=3000),
        ],
    },
}
