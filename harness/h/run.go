// Package h is the shared harness of the wharf verification framework:
// case specs, generators, oracles, evidence and the rapid/enumeration runner.
//
// Every property body has the shape check(spec) Result. A spec is a small JSON
// value from which all bytes are re-derived deterministically. The runner
// journals the current spec before running it (so that a process-killing panic
// in one of wharf's own goroutines still leaves a reproduction behind), runs
// the check under a watchdog, feeds the evidence accumulator and lets rapid
// shrink failures.
package h

import (
	"crypto/sha1"
	"encoding/hex"
	"encoding/json"
	"fmt"
	"os"
	"path/filepath"
	"regexp"
	"runtime"
	"runtime/debug"
	"sort"
	"strconv"
	"strings"
	"sync"
	"testing"
	"time"

	"pgregory.net/rapid"
)

// Result is the verdict of one property evaluation.
type Result struct {
	Fail       string         // non-empty: the property is violated, oracle message
	Skip       string         // non-empty: the case was discarded (counted per reason)
	Classes    []string       // class tags from the independent classifier
	NonTrivial bool           // satisfies the property's stated non-triviality rule
	Sub        int            // number of sub-evaluations performed (resumes, truncations...), 0 = 1
	Extra      map[string]int // counters added to the evidence (observations that are reported, not judged)
}

func Failf(format string, a ...interface{}) Result {
	return Result{Fail: fmt.Sprintf(format, a...)}
}

// Prop describes one generated check.
type Prop[S any] struct {
	ID       string
	Name     string // sub-check name (one property may have several generators)
	Rule     string
	Gen      func(t *rapid.T) S
	Check    func(spec S) Result
	Watchdog time.Duration // per-case; 0 = 60s
	// Predicates are named independent classifiers over the spec, referenced
	// from known_findings.json ("predicate").
	Predicates map[string]func(spec S) bool
	NoJournal  bool // very cheap cases: journal only every 256th
}

// ---------------------------------------------------------------------------
// environment

func OutDir() string {
	d := os.Getenv("VERIF_OUT")
	if d == "" {
		d = filepath.Join(os.TempDir(), "verif-out")
	}
	os.MkdirAll(d, 0o755)
	return d
}

func Shard() int {
	n, _ := strconv.Atoi(os.Getenv("VERIF_SHARD"))
	return n
}

func NShards() int {
	n, _ := strconv.Atoi(os.Getenv("VERIF_NSHARDS"))
	if n < 1 {
		n = 1
	}
	return n
}

func Tier() string {
	t := os.Getenv("VERIF_TIER")
	if t == "" {
		t = "quick"
	}
	return t
}

func Thorough() bool { return Tier() == "thorough" }

// Budget returns the per-shard case budget the driver passed for a named
// sub-check, or def.
func Budget(name string, def int) int {
	if v := os.Getenv("VERIF_N_" + strings.ToUpper(name)); v != "" {
		if n, err := strconv.Atoi(v); err == nil {
			return n
		}
	}
	return def
}

// ---------------------------------------------------------------------------
// known findings

type Finding struct {
	ID         string `json:"id"`
	Property   string `json:"property"`
	Status     string `json:"status"` // open | fixed
	What       string `json:"what"`
	Predicate  string `json:"predicate,omitempty"`
	Signature  string `json:"signature,omitempty"`
	Reproducer string `json:"reproducer,omitempty"`
	Commit     string `json:"commit,omitempty"`
}

var (
	findingsOnce sync.Once
	findings     []Finding
)

func loadFindings() []Finding {
	findingsOnce.Do(func() {
		p := os.Getenv("VERIF_KNOWN")
		if p == "" {
			p = "/verif/known_findings.json"
		}
		b, err := os.ReadFile(p)
		if err != nil {
			return
		}
		var doc struct {
			Findings []Finding `json:"findings"`
		}
		if json.Unmarshal(b, &doc) == nil {
			findings = doc.Findings
		}
	})
	return findings
}

// matchKnown returns the id of the open known finding that this failing case
// is an instance of, or "".
func matchKnown[S any](p *Prop[S], spec S, msg string) string {
	for _, f := range loadFindings() {
		if f.Status != "open" || f.Property != p.ID {
			continue
		}
		pred := p.Predicates[f.Predicate]
		if pred == nil || !pred(spec) {
			continue
		}
		if f.Signature != "" {
			re, err := regexp.Compile(f.Signature)
			if err != nil || !re.MatchString(msg) {
				continue
			}
		}
		return f.ID
	}
	return ""
}

// ---------------------------------------------------------------------------
// evidence accumulator

type Evidence struct {
	Property   string            `json:"property"`
	Name       string            `json:"name"`
	Shard      int               `json:"shard"`
	Evals      int               `json:"evaluations"`
	SubEvals   int               `json:"sub_evaluations"`
	Skipped    map[string]int    `json:"skipped,omitempty"`
	Classes    map[string]int    `json:"classes"`
	NonTrivial []string          `json:"nontrivial_fingerprints"`
	Samples    []json.RawMessage `json:"samples"`
	Excluded   map[string]int    `json:"excluded_known,omitempty"`
	Failures   int               `json:"failures"`
	NTCounted  int               `json:"nontrivial_counted"` // distinct by construction (enumerations)
	Exhaustive bool              `json:"exhaustive,omitempty"`
	Spaces     []string          `json:"spaces,omitempty"`
	Extra      map[string]int    `json:"extra,omitempty"`
	WallS      float64           `json:"wall_s"`

	nt    map[string]struct{}
	start time.Time
	mu    sync.Mutex
}

func NewEvidence(id, name string) *Evidence {
	return &Evidence{Property: id, Name: name, Shard: Shard(), Skipped: map[string]int{}, Classes: map[string]int{},
		Excluded: map[string]int{}, Extra: map[string]int{}, nt: map[string]struct{}{}, start: time.Now()}
}

func Fingerprint(spec interface{}) string {
	b, _ := json.Marshal(spec)
	s := sha1.Sum(b)
	return hex.EncodeToString(s[:8])
}

func (e *Evidence) Record(spec interface{}, r Result) {
	e.mu.Lock()
	defer e.mu.Unlock()
	if r.Skip != "" {
		e.Skipped[r.Skip]++
		return
	}
	e.Evals++
	if r.Sub > 0 {
		e.SubEvals += r.Sub
	} else {
		e.SubEvals++
	}
	for k, v := range r.Extra {
		e.Extra[k] += v
	}
	seen := map[string]bool{}
	for _, c := range r.Classes {
		if !seen[c] {
			seen[c] = true
			e.Classes[c]++
		}
	}
	if r.NonTrivial {
		fp := Fingerprint(spec)
		if _, ok := e.nt[fp]; !ok {
			e.nt[fp] = struct{}{}
			if len(e.Samples) < 3 {
				b, _ := json.Marshal(spec)
				if len(b) > 3000 {
					b, _ = json.Marshal(string(b[:3000]) + "...(truncated)")
				}
				e.Samples = append(e.Samples, b)
			}
		}
	}
}

// CountNT registers one more distinct non-trivial case of an enumeration
// (distinct by construction, so no fingerprint is kept); sample is marshalled
// only while samples are still wanted.
func (e *Evidence) CountNT(classes []string, nontrivial bool, sample func() interface{}) {
	e.Evals++
	e.SubEvals++
	for _, c := range classes {
		e.Classes[c]++
	}
	if nontrivial {
		e.NTCounted++
		if len(e.Samples) < 3 && sample != nil && e.NTCounted%97 == 1 {
			b, _ := json.Marshal(sample())
			e.Samples = append(e.Samples, b)
		}
	}
}

func (e *Evidence) Write() {
	e.mu.Lock()
	defer e.mu.Unlock()
	e.NonTrivial = e.NonTrivial[:0]
	for k := range e.nt {
		e.NonTrivial = append(e.NonTrivial, k)
	}
	sort.Strings(e.NonTrivial)
	e.WallS = time.Since(e.start).Seconds()
	b, _ := json.Marshal(e)
	name := fmt.Sprintf("evid-%s-%d.json", e.Name, e.Shard)
	os.WriteFile(filepath.Join(OutDir(), name), b, 0o644)
}

// ---------------------------------------------------------------------------
// journal + failure dump

type CaseFile struct {
	Property string          `json:"property"`
	Name     string          `json:"name"`
	Spec     json.RawMessage `json:"spec"`
	Message  string          `json:"oracle_message,omitempty"`
	Kind     string          `json:"kind,omitempty"` // fail | panic | hang | died
	Classes  []string        `json:"classes,omitempty"`
	Shard    int             `json:"shard"`
	Seed     string          `json:"seed,omitempty"`
	Stacks   string          `json:"stacks,omitempty"`
}

func writeCase(file string, id, name string, spec interface{}, kind, msg string, classes []string, stacks string) {
	sb, _ := json.Marshal(spec)
	cf := CaseFile{Property: id, Name: name, Spec: sb, Message: msg, Kind: kind, Classes: classes, Shard: Shard(),
		Seed: os.Getenv("VERIF_SEED"), Stacks: stacks}
	b, _ := json.MarshalIndent(cf, "", " ")
	tmp := file + ".tmp"
	if os.WriteFile(tmp, b, 0o644) == nil {
		os.Rename(tmp, file)
	}
}

func shardFile(name, what string) string {
	return filepath.Join(OutDir(), fmt.Sprintf("%s-%s-%d.json", what, name, Shard()))
}

// ---------------------------------------------------------------------------
// guarded execution (recover + watchdog)

// Guard runs f, converting a panic on the calling goroutine into a failing
// Result and enforcing the watchdog. On expiry the process exits with status
// 97 after dumping the goroutine stacks into hang-<name>-<shard>.json: a hung
// goroutine cannot be cancelled, so the process cannot go on.
func Guard[S any](p *Prop[S], spec S, f func(S) Result) (res Result) {
	wd := p.Watchdog
	if wd == 0 {
		wd = 120 * time.Second
	}
	if m := os.Getenv("VERIF_WATCHDOG_MULT"); m != "" {
		if k, err := strconv.Atoi(m); err == nil && k > 0 {
			wd *= time.Duration(k)
		}
	}
	done := make(chan struct{})
	go func() {
		defer close(done)
		defer func() {
			if r := recover(); r != nil {
				res = Result{Fail: fmt.Sprintf("panic: %v\n%s", r, trimStack(debug.Stack()))}
			}
		}()
		res = f(spec)
	}()
	timer := time.NewTimer(wd)
	defer timer.Stop()
	select {
	case <-done:
		return res
	case <-timer.C:
		s1 := allStacks()
		time.Sleep(time.Second)
		select {
		case <-done:
			// finished while we were looking: slow, not hung
			return res
		default:
		}
		s2 := allStacks()
		kind := "hang"
		if isDeadlock(s1) && isDeadlock(s2) {
			kind = "deadlock"
		} else if inHarnessDelay(s1) && inHarnessDelay(s2) {
			// the time goes into delays the harness itself injects (jitter sleeps): says nothing about wharf
			kind = "harness-delay"
		}
		writeCase(shardFile(p.Name, "hang"), p.ID, p.Name, spec, kind,
			fmt.Sprintf("no result after %s (%s)", wd, kind), nil, s1+"\n======== 1s later ========\n"+s2)
		fmt.Fprintf(os.Stderr, "WATCHDOG: case did not return within %s\n", wd)
		os.Exit(97)
	}
	return res
}

// isDeadlock reports whether a goroutine dump shows a true deadlock of the case
// under test: at least one goroutine inside wharf is parked on a channel, select
// or lock, and no goroutine of the process (other than the one taking the dump)
// is running, runnable, in a syscall, waiting for I/O or sleeping - so nothing
// can ever wake the parked ones. A slow or spinning computation always shows a
// running/runnable goroutine and is NOT a deadlock by this rule.
func isDeadlock(dump string) bool {
	parkedInWharf := false
	for _, g := range strings.Split(dump, "\n\n") {
		if !strings.HasPrefix(g, "goroutine ") {
			continue
		}
		if strings.Contains(g, "h.allStacks") {
			continue // the dumper itself
		}
		head := g
		if i := strings.Index(g, "\n"); i >= 0 {
			head = g[:i]
		}
		lb, rb := strings.Index(head, "["), strings.Index(head, "]")
		if lb < 0 || rb < lb {
			continue
		}
		state := head[lb+1 : rb]
		if i := strings.Index(state, ","); i >= 0 {
			state = state[:i]
		}
		switch state {
		case "chan receive", "chan send", "select", "semacquire", "sync.Mutex.Lock", "sync.RWMutex.Lock", "sync.RWMutex.RLock",
			"sync.Cond.Wait", "sync.WaitGroup.Wait", "chan receive (nil chan)", "chan send (nil chan)", "select (no cases)":
			if strings.Contains(g, "github.com/itchio/wharf/") {
				parkedInWharf = true
			}
		case "GC worker (idle)", "GC sweep wait", "GC scavenge wait", "finalizer wait", "force gc (idle)", "debug call":
			// runtime background
		default:
			// running, runnable, syscall, IO wait, sleep, ...: something can still happen
			if strings.Contains(g, "os/signal.") || strings.Contains(g, "runtime.ensureSigM") {
				continue
			}
			return false
		}
	}
	return parkedInWharf
}

// inHarnessDelay reports whether some goroutine of the dump is sleeping inside the harness' own
// perturbation code.
func inHarnessDelay(dump string) bool {
	for _, g := range strings.Split(dump, "\n\n") {
		if strings.Contains(g, "time.Sleep(") && strings.Contains(g, "verif/harness/h.(*Jitter).Pause") {
			return true
		}
	}
	return false
}

func allStacks() string {
	buf := make([]byte, 1<<20)
	n := runtime.Stack(buf, true)
	return string(buf[:n])
}

func trimStack(b []byte) string {
	lines := strings.Split(string(b), "\n")
	var keep []string
	for i := 0; i < len(lines); i++ {
		if strings.Contains(lines[i], "itchio/wharf") || strings.Contains(lines[i], "verif/") {
			keep = append(keep, strings.TrimSpace(lines[i]))
		}
		if len(keep) >= 16 {
			break
		}
	}
	return strings.Join(keep, "\n")
}

// ---------------------------------------------------------------------------
// the rapid runner

// Run drives p with rapid. It must be the body of a Test function of a binary
// started by the driver (which passes -rapid.checks / -rapid.seed).
func Run[S any](t *testing.T, p Prop[S]) {
	ev := NewEvidence(p.ID, p.Name)
	defer ev.Write()
	failFile := shardFile(p.Name, "fail")
	curFile := shardFile(p.Name, "current")
	os.Remove(failFile)
	n := 0
	defer os.Remove(curFile)
	rapid.Check(t, func(rt *rapid.T) {
		spec := p.Gen(rt)
		n++
		if !p.NoJournal || n%256 == 1 {
			writeCase(curFile, p.ID, p.Name, spec, "current", "", nil, "")
		}
		res := Guard(&p, spec, p.Check)
		if res.Fail != "" {
			if id := matchKnown(&p, spec, res.Fail); id != "" {
				ev.mu.Lock()
				ev.Excluded[id]++
				ev.mu.Unlock()
				return
			}
			ev.mu.Lock()
			ev.Failures++
			ev.mu.Unlock()
			writeCase(failFile, p.ID, p.Name, spec, "fail", res.Fail, res.Classes, "")
			rt.Fatalf("%s", res.Fail)
		}
		if res.Skip != "" {
			ev.Record(spec, res)
			// do not use rt.Skip: heavy skipping makes rapid give up; a
			// skipped case is simply a case that checked nothing.
			return
		}
		ev.Record(spec, res)
	})
}

// RunCase evaluates one saved case (no rapid). Returns the oracle message, ""
// when the property held.
func RunCase[S any](p Prop[S], raw json.RawMessage) (msg string, known string, err error) {
	var spec S
	if err := json.Unmarshal(raw, &spec); err != nil {
		return "", "", err
	}
	res := Guard(&p, spec, p.Check)
	if res.Fail != "" {
		return res.Fail, matchKnown(&p, spec, res.Fail), nil
	}
	return "", "", nil
}

// Replayer is what a property package registers for each of its sub-checks so
// that TestReplay can dispatch on CaseFile.Name.
type Replayer func(raw json.RawMessage) (msg string, known string, err error)

func ReplayerOf[S any](p Prop[S]) Replayer {
	return func(raw json.RawMessage) (string, string, error) { return RunCase(p, raw) }
}

// ReplayMain implements TestReplay for a property package: it runs every file
// named in VERIF_REPLAY (':'-separated files or directories) and writes
// replay-result.json. The process exit status is not the verdict; the result
// file is (a panic in a wharf goroutine kills the process, and the driver then
// reads the journal).
func ReplayMain(t *testing.T, reps map[string]Replayer) {
	arg := os.Getenv("VERIF_REPLAY")
	if arg == "" {
		t.Skip("VERIF_REPLAY not set")
	}
	var files []string
	for _, a := range strings.Split(arg, ":") {
		st, err := os.Stat(a)
		if err != nil {
			continue
		}
		if st.IsDir() {
			m, _ := filepath.Glob(filepath.Join(a, "*.json"))
			sort.Strings(m)
			files = append(files, m...)
		} else {
			files = append(files, a)
		}
	}
	type one struct {
		File    string `json:"file"`
		Message string `json:"message"`
		Known   string `json:"known"`
		Error   string `json:"error,omitempty"`
	}
	var out []one
	resFile := filepath.Join(OutDir(), "replay-result.json")
	cur := filepath.Join(OutDir(), "replay-current.txt")
	flush := func() {
		b, _ := json.MarshalIndent(out, "", " ")
		os.WriteFile(resFile, b, 0o644)
	}
	for _, f := range files {
		os.WriteFile(cur, []byte(f), 0o644)
		b, err := os.ReadFile(f)
		if err != nil {
			out = append(out, one{File: f, Error: err.Error()})
			continue
		}
		var cf CaseFile
		if err := json.Unmarshal(b, &cf); err != nil {
			out = append(out, one{File: f, Error: err.Error()})
			continue
		}
		rp := reps[cf.Name]
		if rp == nil {
			out = append(out, one{File: f, Error: "no replayer named " + cf.Name})
			continue
		}
		msg, known, err := rp(cf.Spec)
		o := one{File: f, Message: msg, Known: known}
		if err != nil {
			o.Error = err.Error()
		}
		out = append(out, o)
		flush()
		if msg != "" {
			t.Logf("REPLAY %s: %s", f, msg)
		}
	}
	os.Remove(cur)
	flush()
}

// TempDir makes a scratch directory under TMPDIR.
func TempDir(prefix string) string {
	d, err := os.MkdirTemp("", prefix)
	if err != nil {
		panic(err)
	}
	return d
}

// MatchKnown is matchKnown for enumeration-style tests that do not go through Run.
func MatchKnown[S any](p *Prop[S], spec S, msg string) string { return matchKnown(p, spec, msg) }

// WriteFail dumps a failing case of a non-rapid test as this shard's fail file.
func WriteFail(id, name string, spec interface{}, msg string) {
	writeCase(shardFile(name, "fail"), id, name, spec, "fail", msg, nil, "")
}

// WriteCurrent journals the case (or batch of cases) a non-rapid test is about to run.
func WriteCurrent(id, name string, spec interface{}) {
	writeCase(shardFile(name, "current"), id, name, spec, "current", "", nil, "")
}

// ClearCurrent removes the journal entry at the normal end of a non-rapid test.
func ClearCurrent(name string) { os.Remove(shardFile(name, "current")) }

// TrimStack returns the wharf/verif frames of the current goroutine's stack (for panic reports).
func TrimStack() string { return trimStack(debug.Stack()) }
