package h

import (
	"fmt"

	"github.com/itchio/lake/tlc"
	"github.com/itchio/wharf/bsdiff"
	"github.com/itchio/wharf/pwr"
	"github.com/itchio/wharf/wire"
)

// Series is one decoded per-file series of a patch.
type Series struct {
	FileIndex int64
	Bsdiff    bool
	Ops       []*pwr.SyncOp // rsync series (without the end marker)
	Target    int64         // bsdiff: old file index
	Controls  []*bsdiff.Control
}

// DecodedPatch is the structured form of a patch stream. It shares the
// protobuf definitions with wharf (they are the format) and no logic.
type DecodedPatch struct {
	Header *pwr.PatchHeader
	Old    *tlc.Container
	New    *tlc.Container
	Series []*Series
}

// DecodePatch parses a well-formed patch.
func DecodePatch(patch []byte) (*DecodedPatch, error) {
	src := Source(patch)
	if _, err := src.Resume(nil); err != nil {
		return nil, err
	}
	raw := wire.NewReadContext(src)
	if err := raw.ExpectMagic(pwr.PatchMagic); err != nil {
		return nil, err
	}
	d := &DecodedPatch{Header: &pwr.PatchHeader{}, Old: &tlc.Container{}, New: &tlc.Container{}}
	if err := raw.ReadMessage(d.Header); err != nil {
		return nil, err
	}
	r, err := pwr.DecompressWire(raw, d.Header.Compression)
	if err != nil {
		return nil, err
	}
	if err := r.ReadMessage(d.Old); err != nil {
		return nil, err
	}
	if err := r.ReadMessage(d.New); err != nil {
		return nil, err
	}
	for i := range d.New.Files {
		sh := &pwr.SyncHeader{}
		if err := r.ReadMessage(sh); err != nil {
			return nil, fmt.Errorf("sync header %d: %w", i, err)
		}
		s := &Series{FileIndex: sh.FileIndex}
		if sh.Type == pwr.SyncHeader_BSDIFF {
			s.Bsdiff = true
			bh := &pwr.BsdiffHeader{}
			if err := r.ReadMessage(bh); err != nil {
				return nil, err
			}
			s.Target = bh.TargetIndex
			for {
				c := &bsdiff.Control{}
				if err := r.ReadMessage(c); err != nil {
					return nil, err
				}
				if c.Eof {
					break
				}
				s.Controls = append(s.Controls, c)
			}
			op := &pwr.SyncOp{}
			if err := r.ReadMessage(op); err != nil {
				return nil, err
			}
			if op.Type != pwr.SyncOp_HEY_YOU_DID_IT {
				return nil, fmt.Errorf("file %d: missing end marker after bsdiff series", i)
			}
		} else {
			for {
				op := &pwr.SyncOp{}
				if err := r.ReadMessage(op); err != nil {
					return nil, err
				}
				if op.Type == pwr.SyncOp_HEY_YOU_DID_IT {
					break
				}
				s.Ops = append(s.Ops, op)
			}
		}
		d.Series = append(d.Series, s)
	}
	return d, nil
}

// NumBlocks is the reference block count: ceil(size/64KiB).
func NumBlocks(size int64) int64 { return (size + BS - 1) / BS }

// IsWholeFile reports whether series s is a single block range covering an old
// file of the same size as the new file (what the patcher turns into a
// transposition), and that old file's index.
func (d *DecodedPatch) IsWholeFile(s *Series) (int64, bool) {
	if s.Bsdiff || len(s.Ops) == 0 {
		return 0, false
	}
	op := s.Ops[0]
	if op.Type != pwr.SyncOp_BLOCK_RANGE || op.BlockIndex != 0 {
		return 0, false
	}
	if op.FileIndex < 0 || int(op.FileIndex) >= len(d.Old.Files) {
		return 0, false
	}
	nf := d.New.Files[s.FileIndex]
	of := d.Old.Files[op.FileIndex]
	if nf.Size != of.Size || op.BlockSpan != NumBlocks(nf.Size) {
		return 0, false
	}
	return op.FileIndex, true
}

// PatchStats are class-relevant facts about a decoded patch.
type PatchStats struct {
	Ranges, Datas, DataBytes    int
	WholeFile, WholeFileRenamed int
	BsdiffSeries                int
	MaxData                     int
	ShortTailRange              int
}

func (d *DecodedPatch) Stats() PatchStats {
	var st PatchStats
	for _, s := range d.Series {
		if s.Bsdiff {
			st.BsdiffSeries++
			continue
		}
		if ti, ok := d.IsWholeFile(s); ok {
			st.WholeFile++
			if d.Old.Files[ti].Path != d.New.Files[s.FileIndex].Path {
				st.WholeFileRenamed++
			}
			continue
		}
		for _, op := range s.Ops {
			switch op.Type {
			case pwr.SyncOp_BLOCK_RANGE:
				st.Ranges++
				if op.FileIndex >= 0 && int(op.FileIndex) < len(d.Old.Files) {
					of := d.Old.Files[op.FileIndex]
					if (op.BlockIndex+op.BlockSpan)*BS > of.Size {
						st.ShortTailRange++
					}
				}
			case pwr.SyncOp_DATA:
				if len(op.Data) > 0 {
					st.Datas++
					st.DataBytes += len(op.Data)
					if len(op.Data) > st.MaxData {
						st.MaxData = len(op.Data)
					}
				}
			}
		}
	}
	return st
}
