package h

import (
	"io"
	"runtime"
	"sync/atomic"
	"time"

	"github.com/itchio/lake"
)

// Jitter hands out schedule / read-slicing perturbation decisions from a byte
// string of the case spec, one byte per decision: the *requested* perturbation
// replays exactly even though the scheduler's response to it does not.
type Jitter struct {
	B []byte
	n int64
}

func NewJitter(b []byte, start int) *Jitter { return &Jitter{B: b, n: int64(start)} }

func (j *Jitter) Next() byte {
	if j == nil || len(j.B) == 0 {
		return 0
	}
	i := atomic.AddInt64(&j.n, 1)
	return j.B[int(i)%len(j.B)]
}

// Pause yields or sleeps according to b.
func (j *Jitter) Pause(b byte) {
	switch b % 8 {
	case 0:
		runtime.Gosched()
	case 1:
		time.Sleep(time.Duration(b>>3) * 5 * time.Microsecond)
	}
}

// JitterPool wraps a pool: its readers return generated short reads and yield
// or sleep at generated points.
type JitterPool struct {
	lake.Pool
	J *Jitter
}

type jitterReader struct {
	r io.Reader
	j *Jitter
}

func (jr *jitterReader) Read(p []byte) (int, error) {
	b := jr.j.Next()
	if len(p) > 1 && b&0x80 != 0 {
		n := 1 + (int(b&0x7f)*len(p))/128
		if n > len(p) {
			n = len(p)
		}
		p = p[:n]
	}
	jr.j.Pause(jr.j.Next())
	return jr.r.Read(p)
}

func (p *JitterPool) GetReader(i int64) (io.Reader, error) {
	r, err := p.Pool.GetReader(i)
	if err != nil {
		return nil, err
	}
	return &jitterReader{r, p.J}, nil
}
