package h

import (
	"io"
	"runtime"
	"sync/atomic"
	"time"

	"github.com/itchio/lake"
)

// Jitter hands out schedule / read-slicing perturbation decisions from a byte
// string of the case spec, one byte per decision: the *requested* perturbation
// replays exactly even though the scheduler's response to it does not.
type Jitter struct {
	B []byte
	n int64
	// budgets: a byte string like {0x80, 0xb9} asks for a one-byte read followed by a sleep, forever - at
	// ~1 ms per sleep that is 1 KB/s, and a 600 KB build looks like a hang. The perturbation is bounded
	// instead: after MaxSleeps sleeps a pause only yields, after MaxSliced sliced reads a reader reads normally.
	sleeps int64
}

const (
	MaxSleeps = 96
	MaxSliced = 384
)

func NewJitter(b []byte, start int) *Jitter { return &Jitter{B: b, n: int64(start)} }

func (j *Jitter) Next() byte {
	if j == nil || len(j.B) == 0 {
		return 0
	}
	i := atomic.AddInt64(&j.n, 1)
	return j.B[int(i)%len(j.B)]
}

// Pause yields or sleeps according to b.
func (j *Jitter) Pause(b byte) {
	switch b % 8 {
	case 0:
		runtime.Gosched()
	case 1:
		if atomic.AddInt64(&j.sleeps, 1) > MaxSleeps {
			runtime.Gosched()
			return
		}
		time.Sleep(time.Duration(b>>3) * 5 * time.Microsecond)
	}
}

// JitterPool wraps a pool: its readers return generated short reads and yield
// or sleep at generated points.
type JitterPool struct {
	lake.Pool
	J *Jitter
}

type jitterReader struct {
	r io.Reader
	j *Jitter

	// data-with-EOF mode (like iotest.DataErrReader): the last bytes are
	// returned together with io.EOF, as zip-backed pools and many network
	// readers do. Allowed by the io.Reader contract.
	dataErr bool
	noPause bool
	sliced  int
	pending []byte
	err     error
}

// NewSlicedReader wraps r so that it returns generated short reads (no pauses)
// and, when the first jitter byte is odd, its last bytes together with io.EOF.
func NewSlicedReader(r io.Reader, j *Jitter) io.Reader {
	dataErr := j != nil && len(j.B) > 0 && j.B[0]&1 == 1
	return &jitterReader{r: r, j: j, dataErr: dataErr, noPause: true}
}

func (jr *jitterReader) Read(p []byte) (int, error) {
	b := jr.j.Next()
	if len(p) > 1 && b&0x80 != 0 && jr.sliced < MaxSliced {
		jr.sliced++
		n := 1 + (int(b&0x7f)*len(p))/128
		if n > len(p) {
			n = len(p)
		}
		p = p[:n]
	}
	if !jr.noPause {
		jr.j.Pause(jr.j.Next())
	}
	if !jr.dataErr {
		return jr.r.Read(p)
	}
	// read ahead so that we know whether the bytes we hand out are the last ones
	for jr.err == nil && len(jr.pending) <= len(p) {
		buf := make([]byte, len(p)+1)
		n, err := jr.r.Read(buf)
		jr.pending = append(jr.pending, buf[:n]...)
		jr.err = err
		if n == 0 && err == nil {
			break
		}
	}
	n := copy(p, jr.pending)
	jr.pending = jr.pending[n:]
	if len(jr.pending) == 0 && jr.err != nil {
		return n, jr.err
	}
	return n, nil
}

func (p *JitterPool) GetReader(i int64) (io.Reader, error) {
	r, err := p.Pool.GetReader(i)
	if err != nil {
		return nil, err
	}
	// the first byte of the jitter string selects data-with-EOF mode for the whole case
	dataErr := p.J != nil && len(p.J.B) > 0 && p.J.B[0]&1 == 1
	return &jitterReader{r: r, j: p.J, dataErr: dataErr}, nil
}
