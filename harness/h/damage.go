package h

import (
	"bytes"
	"fmt"
	"os"
	"path/filepath"
	"strings"

	"pgregory.net/rapid"
)

// Dmg is one damage applied to a valid copy of a build on disk.
//
//	flip      xor one byte at Off
//	collide   change three neighbouring bytes at or after Off (same 64KiB block) by +1, -2, +1: the block's
//	          rolling (weak) hash stays the same, only the strong hash tells the difference; falls back to
//	          flip when the block has no position where that is possible without a byte wrapping around
//	scramble  xor the bytes [Off, Off+Len) with 0x5a: contiguous damage over several blocks
//	truncate  cut the file to Len bytes
//	extend    append Len bytes
//	delete    remove the entry (recursively for directories)
//	tofile    replace the entry (and everything below it) by a regular file of Len bytes
//	todir     replace the entry by a directory containing one file
//	tolink    replace the entry (and everything below it) by a symlink to Dest
//	tomirror  move the directory aside and replace it by a symlink to the moved copy
//	retarget  point the symlink to Dest
type Dmg struct {
	Path string `json:"path"`
	Op   string `json:"op"`
	Off  int    `json:"off,omitempty"`
	Len  int    `json:"len,omitempty"`
	Dest string `json:"dest,omitempty"`
}

// CollideBytes changes b[j], b[j+1], b[j+2] by +1, -2, +1 for the first j >= off such that the three bytes
// lie in the 64KiB block of off and none wraps around. Both sums of the rsync rolling hash of that block
// (sum of bytes, position-weighted sum of bytes) are unchanged. Reports whether such a j was found.
func CollideBytes(b []byte, off int) bool {
	end := (off/BS + 1) * BS
	if end > len(b) {
		end = len(b)
	}
	for j := off; j+2 < end; j++ {
		if b[j] <= 254 && b[j+1] >= 2 && b[j+2] <= 254 {
			b[j]++
			b[j+1] -= 2
			b[j+2]++
			return true
		}
	}
	return false
}

// ApplyDmg applies d below dir. A damage whose victim is not there any more (an
// earlier damage removed or replaced it or one of its parents) is a no-op.
func ApplyDmg(dir string, d Dmg) error {
	if d.Path == "" {
		// the build directory itself
		switch d.Op {
		case "delete":
			return os.RemoveAll(dir)
		case "empty":
			if err := os.RemoveAll(dir); err != nil {
				return err
			}
			return os.MkdirAll(dir, 0o755)
		}
		return nil
	}
	fp := filepath.Join(dir, filepath.FromSlash(d.Path))
	// refuse to act through a symlinked parent: walk the components
	parts := strings.Split(d.Path, "/")
	cur := dir
	for _, p := range parts[:len(parts)-1] {
		cur = filepath.Join(cur, p)
		st, err := os.Lstat(cur)
		if err != nil || !st.IsDir() {
			return nil
		}
	}
	st, err := os.Lstat(fp)
	if err != nil {
		return nil
	}
	switch d.Op {
	case "scramble":
		if !st.Mode().IsRegular() || int64(d.Off) >= st.Size() || d.Len <= 0 {
			return nil
		}
		b, err := os.ReadFile(fp)
		if err != nil {
			return err
		}
		for i := d.Off; i < d.Off+d.Len && i < len(b); i++ {
			b[i] ^= 0x5a
		}
		return os.WriteFile(fp, b, st.Mode().Perm())
	case "collide":
		if !st.Mode().IsRegular() || int64(d.Off) >= st.Size() {
			return nil
		}
		b, err := os.ReadFile(fp)
		if err != nil {
			return err
		}
		if !CollideBytes(b, d.Off) {
			b[d.Off] ^= 0x10
		}
		return os.WriteFile(fp, b, st.Mode().Perm())
	case "flip":
		if !st.Mode().IsRegular() || int64(d.Off) >= st.Size() {
			return nil
		}
		f, err := os.OpenFile(fp, os.O_RDWR, 0)
		if err != nil {
			return err
		}
		defer f.Close()
		var b [1]byte
		if _, err := f.ReadAt(b[:], int64(d.Off)); err != nil {
			return err
		}
		b[0] ^= 0x10
		_, err = f.WriteAt(b[:], int64(d.Off))
		return err
	case "truncate":
		if !st.Mode().IsRegular() || int64(d.Len) >= st.Size() {
			return nil
		}
		return os.Truncate(fp, int64(d.Len))
	case "extend":
		if !st.Mode().IsRegular() || d.Len <= 0 {
			return nil
		}
		f, err := os.OpenFile(fp, os.O_WRONLY|os.O_APPEND, 0)
		if err != nil {
			return err
		}
		defer f.Close()
		_, err = f.Write(Content{{Src: 8, Off: 4242, Len: d.Len}}.Bytes())
		return err
	case "delete":
		return os.RemoveAll(fp)
	case "tofile":
		if err := os.RemoveAll(fp); err != nil {
			return err
		}
		return os.WriteFile(fp, Content{{Src: 8, Off: 99, Len: d.Len}}.Bytes(), 0o644)
	case "todir":
		if err := os.RemoveAll(fp); err != nil {
			return err
		}
		if err := os.MkdirAll(filepath.Join(fp, "sub"), 0o755); err != nil {
			return err
		}
		return os.WriteFile(filepath.Join(fp, "sub", "intruder"), []byte("intruder"), 0o644)
	case "tolink":
		if err := os.RemoveAll(fp); err != nil {
			return err
		}
		return os.Symlink(d.Dest, fp)
	case "tomirror":
		// "folder moved elsewhere and symlinked back": everything below still resolves
		if err := os.Rename(fp, fp+".moved"); err != nil {
			return err
		}
		return os.Symlink(filepath.Base(fp)+".moved", fp)
	case "retarget":
		if st.Mode()&os.ModeSymlink == 0 {
			return nil
		}
		if err := os.Remove(fp); err != nil {
			return err
		}
		return os.Symlink(d.Dest, fp)
	}
	return fmt.Errorf("unknown damage op %q", d.Op)
}

// Deviation describes how one signed entry differs on disk, as observed
// through the OS (Lstat on the full path, ReadFile) - independent of wharf.
type Deviation struct {
	Path     string
	Kind     string // signed kind
	Index    int    // index in the container's Files / Dirs / Symlinks list (sorted by path within kind)
	Missing  bool   // nothing there, or not reachable
	WrongKnd bool   // something else is there
	WrongDst bool   // symlink with another destination
	// files only (when a regular file is there):
	DiffOffsets []int // every differing offset below the signed length would be too many: first and last differing offset of every 64KiB block
	Shorter     bool
	Longer      bool
	SignedLen   int
	ActualLen   int
}

func (d Deviation) Any() bool {
	return d.Missing || d.WrongKnd || d.WrongDst || len(d.DiffOffsets) > 0 || d.Shorter || d.Longer
}

// Observe compares dir with the signed tree entry by entry. The returned slice
// has one element per signed entry that deviates. Index numbering follows
// tlc's walk order, which is what pathsIndex supplies.
func Observe(dir string, signed Tree, index func(kind, path string) int) []Deviation {
	var out []Deviation
	for _, e := range signed {
		fp := filepath.Join(dir, filepath.FromSlash(e.Path))
		dv := Deviation{Path: e.Path, Kind: e.Kind, Index: index(e.Kind, e.Path)}
		st, err := os.Lstat(fp)
		switch {
		case err != nil:
			dv.Missing = true
		case e.Kind == KDir:
			dv.WrongKnd = !st.IsDir()
		case e.Kind == KLink:
			if st.Mode()&os.ModeSymlink == 0 {
				dv.WrongKnd = true
			} else if dest, _ := os.Readlink(fp); dest != e.Dest {
				dv.WrongDst = true
			}
		case e.Kind == KFile:
			if !st.Mode().IsRegular() {
				dv.WrongKnd = true
				break
			}
			want := e.C.Bytes()
			got, err := os.ReadFile(fp)
			if err != nil {
				dv.Missing = true
				break
			}
			dv.SignedLen, dv.ActualLen = len(want), len(got)
			dv.Shorter = len(got) < len(want)
			dv.Longer = len(got) > len(want)
			n := len(want)
			if len(got) < n {
				n = len(got)
			}
			if !bytes.Equal(want[:n], got[:n]) {
				for b := 0; b*BS < n; b++ {
					lo, hi := b*BS, (b+1)*BS
					if hi > n {
						hi = n
					}
					first, last := -1, -1
					for i := lo; i < hi; i++ {
						if want[i] != got[i] {
							if first < 0 {
								first = i
							}
							last = i
						}
					}
					if first >= 0 {
						dv.DiffOffsets = append(dv.DiffOffsets, first)
						if last != first {
							dv.DiffOffsets = append(dv.DiffOffsets, last)
						}
					}
				}
			}
		}
		if dv.Any() {
			out = append(out, dv)
		}
	}
	return out
}

// GenDamages draws a damage sequence for a signed tree. hidden enables the kind
// swaps that hide whole subtrees; whole enables "directory empty / missing".
func GenDamages(t *rapid.T, signed Tree, maxN int, hidden, whole bool) []Dmg {
	if whole && rapid.IntRange(0, 24).Draw(t, "whole-dir") == 0 {
		return []Dmg{{Path: "", Op: rapid.SampledFrom([]string{"delete", "empty"}).Draw(t, "whole-op")}}
	}
	if len(signed) == 0 {
		return nil
	}
	n := rapid.IntRange(0, maxN).Draw(t, "ndamage")
	var out []Dmg
	for i := 0; i < n; i++ {
		e := signed[rapid.IntRange(0, len(signed)-1).Draw(t, "victim")]
		d := Dmg{Path: e.Path}
		size := e.C.Len()
		k := rapid.IntRange(0, 19).Draw(t, "damage-op")
		switch e.Kind {
		case KFile:
			switch {
			case k < 6:
				d.Op = "flip"
				if k == 5 {
					d.Op = "collide"
				}
				if k == 4 && size > 1 {
					// contiguous damage: part of a block, or several adjacent blocks
					d.Op = "scramble"
					d.Off = rapid.IntRange(0, (size-1)/BS).Draw(t, "scramble-block")*BS + rapid.SampledFrom([]int{0, 0, 1, BS - 1}).Draw(t, "scramble-in-block")
					if d.Off >= size {
						d.Off = size - 1
					}
					d.Len = rapid.SampledFrom([]int{2, BS, BS + 1, 2 * BS, 3*BS + 7, size}).Draw(t, "scramble-len")
					break
				}
				if size == 0 {
					d.Op = "extend"
					d.Len = rapid.SampledFrom([]int{1, 100, BS, BS + 1}).Draw(t, "fill-empty")
					break
				}
				nb := (size + BS - 1) / BS
				b := rapid.IntRange(0, nb-1).Draw(t, "flip-block")
				d.Off = b*BS + rapid.SampledFrom([]int{0, BS - 1, 1, 777}).Draw(t, "flip-in-block")
				if d.Off >= size || rapid.IntRange(0, 4).Draw(t, "flip-last-byte") == 0 {
					d.Off = size - 1
				}
			case k < 10:
				d.Op = "truncate"
				nb := size / BS
				d.Len = rapid.IntRange(0, nb).Draw(t, "trunc-block")*BS + rapid.SampledFrom([]int{-1, 0, 1}).Draw(t, "trunc-delta")
				if rapid.IntRange(0, 3).Draw(t, "trunc-random") == 0 {
					d.Len = rapid.IntRange(0, size).Draw(t, "trunc-len")
				}
				if d.Len < 0 {
					d.Len = 0
				}
			case k < 14:
				d.Op = "extend"
				rem := BS - size%BS
				d.Len = rapid.SampledFrom([]int{1, rem - 1, rem, rem + 1, 3*BS + 5}).Draw(t, "extend")
				if d.Len <= 0 {
					d.Len = 1
				}
			case k < 15:
				d.Op = "truncate"
				d.Len = 0
			case k < 17:
				d.Op = "delete"
			case k < 18:
				d.Op = "tolink"
				d.Dest = GenDest(t)
			default:
				if hidden {
					d.Op = "todir"
				} else {
					d.Op = "delete"
				}
			}
		case KDir:
			switch {
			case k < 8:
				d.Op = "delete"
			case k < 13 && hidden:
				d.Op = "tofile"
				d.Len = rapid.SampledFrom([]int{0, 5, BS + 1}).Draw(t, "tofile-len")
			case k < 17 && hidden:
				d.Op = "tolink"
				d.Dest = GenDest(t)
			case hidden:
				d.Op = "tomirror"
			default:
				d.Op = "delete"
			}
		case KLink:
			switch {
			case k < 8:
				d.Op = "retarget"
				d.Dest = GenDest(t) + "x"
				if rapid.IntRange(0, 2).Draw(t, "retarget-respelled") == 0 {
					// another string that lexical path cleaning maps to the same thing as the signed destination
					// (it need not resolve to the same file: "x/../a" goes through x)
					alt := rapid.SampledFrom([]string{"./" + e.Dest, e.Dest + "/", "x/../" + e.Dest, strings.Replace(e.Dest, "/", "//", 1), strings.TrimPrefix(e.Dest, "./"), strings.TrimSuffix(e.Dest, "/")}).Draw(t, "respelling")
					if alt != e.Dest && alt != "" {
						d.Dest = alt
					}
				}
			case k < 13:
				d.Op = "delete"
			case k < 17:
				d.Op = "tofile"
				d.Len = rapid.SampledFrom([]int{0, 5}).Draw(t, "tofile-len")
			default:
				d.Op = "todir"
			}
		}
		out = append(out, d)
	}
	return out
}

// DmgClasses are class tags of a damage sequence (independent of the code under test).
func DmgClasses(signed Tree, ds []Dmg) []string {
	var cl []string
	for _, d := range ds {
		cl = append(cl, "damage:"+d.Op)
		e := signed.Get(d.Path)
		if e == nil {
			if d.Path == "" {
				cl = append(cl, "damage:whole-directory-"+d.Op)
			}
			continue
		}
		size := e.C.Len()
		switch d.Op {
		case "scramble":
			end := d.Off + d.Len
			if end > size {
				end = size
			}
			if end > d.Off {
				nb := (end-1)/BS - d.Off/BS + 1
				switch {
				case nb > 64:
					cl = append(cl, "damage:contiguous->64-blocks")
				case nb > 1:
					cl = append(cl, "damage:contiguous-2..64-blocks")
				}
			}
		case "collide":
			cl = append(cl, "damage:same-weak-hash")
		case "flip":
			if d.Off%BS == 0 || d.Off%BS == BS-1 || d.Off == size-1 {
				cl = append(cl, "damage:flip-at-block-boundary-class")
			}
		case "truncate":
			if d.Len/BS != size/BS || d.Len%BS == 0 {
				cl = append(cl, "damage:length-change-crossing-block-boundary")
			}
		case "extend":
			if (size+d.Len-1)/BS != (size-1)/BS || size%BS == 0 {
				cl = append(cl, "damage:length-change-crossing-block-boundary")
			} else {
				cl = append(cl, "damage:extend-within-last-block")
			}
		case "retarget":
			if filepath.Clean(d.Dest) == filepath.Clean(e.Dest) {
				cl = append(cl, "damage:symlink-retargeted-to-a-respelling")
			}
		case "tofile", "todir", "tolink", "tomirror":
			cl = append(cl, "damage:kind-swap:"+e.Kind+"->"+d.Op[2:])
			if e.Kind == KDir {
				for _, c := range signed {
					if strings.HasPrefix(c.Path, e.Path+"/") {
						cl = append(cl, "damage:hides-subtree")
						break
					}
				}
			}
		}
	}
	return cl
}
