package h

import (
	"encoding/binary"
	"math/rand"
	"sync"
)

// BS is wharf's block size.
const BS = 64 * 1024

// Piece is a run of bytes taken from a deterministic source.
//
//	Src 0        zeros
//	Src 1..99    high-entropy stream number Src (the same stream everywhere)
//	Src 100+p    low-entropy periodic stream with period p (p>=1)
//	Src 1000+    random stream over a 2-, 3- or 4-letter alphabet (1000+3*i+(a-2)): repetitive, self-similar
//	             content with many short matches everywhere - text-like, structured binaries
//	Src -1-c     constant byte c (0..255): a full 64KiB block of an EVEN constant has weak hash 0 without
//	             being all zeroes (both rolling sums are multiples of 65536)
//
// Xor is applied to every byte of the run.
type Piece struct {
	Src int  `json:"s"`
	Off int  `json:"o"`
	Len int  `json:"n"`
	Xor byte `json:"x,omitempty"`
}

// Content is a file's content as a list of pieces.
type Content []Piece

func (c Content) Len() int {
	n := 0
	for _, p := range c {
		n += p.Len
	}
	return n
}

var (
	blkMu    sync.Mutex
	blkCache = map[[2]int][]byte{}
)

const streamBlk = 1 << 16

func streamBlock(src, j int) []byte {
	blkMu.Lock()
	defer blkMu.Unlock()
	k := [2]int{src, j}
	if b, ok := blkCache[k]; ok {
		return b
	}
	if len(blkCache) > 4096 { // 256 MiB cap
		blkCache = map[[2]int][]byte{}
	}
	b := make([]byte, streamBlk)
	r := rand.New(rand.NewSource(int64(src)*1000003 + int64(j)*7919 + 12345))
	for i := 0; i < len(b); i += 8 {
		binary.LittleEndian.PutUint64(b[i:], r.Uint64())
	}
	blkCache[k] = b
	return b
}

func periodicByte(p, i int) byte {
	k := i % p
	return byte((k*131 + k/7 + p) & 0xff)
}

// Append appends the bytes of piece p to dst.
func (p Piece) Append(dst []byte) []byte {
	if p.Len <= 0 {
		return dst
	}
	start := len(dst)
	switch {
	case p.Src < 0:
		c := byte(-1 - p.Src)
		for i := 0; i < p.Len; i++ {
			dst = append(dst, c)
		}
	case p.Src == 0:
		dst = append(dst, make([]byte, p.Len)...)
	case p.Src >= 1000:
		a := byte(2 + (p.Src-1000)%3)
		off, n := p.Off, p.Len
		for n > 0 {
			b := streamBlock(p.Src, off/streamBlk)
			o := off % streamBlk
			k := streamBlk - o
			if k > n {
				k = n
			}
			for _, x := range b[o : o+k] {
				dst = append(dst, 'a'+x%a)
			}
			off += k
			n -= k
		}
	case p.Src >= 100:
		per := p.Src - 100
		if per < 1 {
			per = 1
		}
		for i := 0; i < p.Len; i++ {
			dst = append(dst, periodicByte(per, p.Off+i))
		}
	default:
		off, n := p.Off, p.Len
		for n > 0 {
			b := streamBlock(p.Src, off/streamBlk)
			o := off % streamBlk
			k := streamBlk - o
			if k > n {
				k = n
			}
			dst = append(dst, b[o:o+k]...)
			off += k
			n -= k
		}
	}
	if p.Xor != 0 {
		for i := start; i < len(dst); i++ {
			dst[i] ^= p.Xor
		}
	}
	return dst
}

// Bytes materialises the content.
func (c Content) Bytes() []byte {
	out := make([]byte, 0, c.Len())
	for _, p := range c {
		out = p.Append(out)
	}
	return out
}

// Slice returns the sub-content [lo,hi).
func (c Content) Slice(lo, hi int) Content {
	var out Content
	pos := 0
	for _, p := range c {
		a, b := pos, pos+p.Len
		pos = b
		if b <= lo || a >= hi {
			continue
		}
		s, e := a, b
		if s < lo {
			s = lo
		}
		if e > hi {
			e = hi
		}
		q := p
		q.Off = p.Off + (s - a)
		q.Len = e - s
		if q.Len > 0 {
			out = append(out, q)
		}
	}
	return out
}

// Concat returns a ++ b (copy).
func Concat(cs ...Content) Content {
	var out Content
	for _, c := range cs {
		out = append(out, c...)
	}
	return out
}

// XorRange returns c with bytes [lo,hi) xored with x.
func (c Content) XorRange(lo, hi int, x byte) Content {
	n := c.Len()
	if hi > n {
		hi = n
	}
	if lo >= hi {
		return Concat(c)
	}
	mid := c.Slice(lo, hi)
	for i := range mid {
		mid[i].Xor ^= x
	}
	return Concat(c.Slice(0, lo), mid, c.Slice(hi, n))
}
