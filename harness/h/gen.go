package h

import (
	"crypto/sha1"
	"fmt"
	"sort"
	"strings"

	"pgregory.net/rapid"
)

// Pair is a build pair spec.
type Pair struct {
	Old Tree `json:"old"`
	New Tree `json:"new"`
}

// GenOpts tunes the build-pair generator (BP-gen).
type GenOpts struct {
	KindChange bool // allow a surviving path to change kind (file<->dir<->symlink)
	Large      bool // allow rare > 4 MiB / > 8 MiB files
	Tiny       bool // up-weight files of 0..16 bytes (C07)
	PathOps    bool // up-weight rename / swap / chain / duplicate (C02)
	ManyEdits  bool // files with many edits => many ops (C03)
	ConstCap   int  // >0: constant content (zeros, period 1) longer than this becomes period 7: runs of one byte value are bsdiff's quadratic worst case (64KiB of zeros shifted by 2 bytes: 4s), which would turn "slow" into a watchdog matter in checks that run the optimizer
	MaxOld     int  // max entries drawn for the old tree (default 6)
	MaxOps     int  // max derivation operations (default 8)
}

var names = []string{"a", "b", "c", "d"}

// oddNames are legal entry names that careless path handling mistreats: consecutive dots (not a ".." element),
// leading dot, trailing dot, blanks, non-ASCII, shell/URL metacharacters. Drawn rarely: the tiny alphabet above
// is what makes paths collide.
var oddNames = []string{"a..b", "...", ".h", "a b", "\u00fc", "x.y", "-", "~t", "a.", "c#", "%41",
	// names that differ from the common ones by case only: two entries of one build may collide under case folding
	"A", "B"}

var SizeClasses = []int{0, 1, 2, 100, BS - 1, BS, BS + 1, 2*BS - 1, 2 * BS, 2*BS + 1, 3 * BS, 5*BS + 17}

func GenPath(t *rapid.T, label string) string {
	depth := rapid.IntRange(1, 3).Draw(t, label+"-depth")
	parts := make([]string, depth)
	for i := range parts {
		parts[i] = rapid.SampledFrom(names).Draw(t, label+"-seg")
		if rapid.IntRange(0, 15).Draw(t, label+"-odd") == 0 {
			parts[i] = rapid.SampledFrom(oddNames).Draw(t, label+"-oddname")
		}
	}
	return strings.Join(parts, "/")
}

func GenSize(t *rapid.T, label string, o GenOpts) int {
	k := rapid.IntRange(0, 99).Draw(t, label+"-sizeclass")
	switch {
	case o.Tiny && k < 45:
		return rapid.IntRange(0, 16).Draw(t, label+"-tiny")
	case o.Large && k >= 98:
		return rapid.SampledFrom([]int{4<<20 + 1, 4<<20 + BS + 17, 8<<20 + 3, 64 * BS, 65*BS - 1}).Draw(t, label+"-large")
	case k < 40:
		return rapid.SampledFrom(SizeClasses).Draw(t, label+"-class")
	case k < 65:
		return rapid.IntRange(0, 300).Draw(t, label+"-small")
	case k < 75:
		return rapid.IntRange(1, 12).Draw(t, label+"-nblocks")*BS + rapid.SampledFrom([]int{-1, 0, 1, 17}).Draw(t, label+"-delta")
	default:
		return rapid.IntRange(0, 6*BS).Draw(t, label+"-uniform")
	}
}

// GenContent draws a content: mostly a prefix (or block-aligned window) of one
// of six shared high-entropy streams, so that files share block-aligned
// prefixes and individual blocks; sometimes low entropy.
func GenContent(t *rapid.T, label string, o GenOpts) Content {
	n := GenSize(t, label, o)
	if n == 0 {
		return Content{}
	}
	k := rapid.IntRange(0, 19).Draw(t, label+"-srckind")
	switch {
	case k == 0:
		if o.ConstCap > 0 && n > o.ConstCap {
			return Content{{Src: 107, Len: n}}
		}
		if rapid.Bool().Draw(t, label+"-nonzero-constant") {
			// space padding, 8-bit PCM silence, ...: weak hash 0 for every full block of an even value
			c := rapid.SampledFrom([]int{0x20, 0x80, 0xFE, 0x01, 0xFF}).Draw(t, label+"-constant")
			return Content{{Src: -1 - c, Len: n}}
		}
		return Content{{Src: 0, Len: n}}
	case k == 3:
		// a small alphabet: matches of every length everywhere
		return Content{{Src: 1000 + rapid.IntRange(0, 8).Draw(t, label+"-small-alphabet"), Len: n}}
	case k <= 2:
		p := rapid.SampledFrom([]int{1, 2, 3, 7, 64, 4096, BS, BS + 1}).Draw(t, label+"-period")
		if p == 1 && o.ConstCap > 0 && n > o.ConstCap {
			p = 7
		}
		return Content{{Src: 100 + p, Len: n}}
	default:
		src := rapid.IntRange(1, 6).Draw(t, label+"-stream")
		off := 0
		if rapid.IntRange(0, 3).Draw(t, label+"-shifted") == 0 {
			off = rapid.IntRange(0, 4).Draw(t, label+"-offblocks") * BS
		}
		return Content{{Src: src, Off: off, Len: n}}
	}
}

var freshCounter = 0

// EditContent applies k localized edits on the piece list. intro receives the
// number of bytes the edits introduce.
func EditContent(t *rapid.T, c Content, k int, intro *int) Content {
	for i := 0; i < k; i++ {
		n := c.Len()
		off := genEditOffset(t, n)
		ln := rapid.OneOf(rapid.IntRange(1, 200), rapid.SampledFrom([]int{BS - 1, BS, BS + 1})).Draw(t, "edit-len")
		switch rapid.IntRange(0, 2).Draw(t, "edit-kind") {
		case 0: // overwrite
			hi := off + ln
			if hi > n {
				hi = n
			}
			c = c.XorRange(off, hi, 0x5a)
			if intro != nil && hi > off {
				*intro += hi - off
			}
		case 1: // insert bytes nobody else has
			foff := rapid.IntRange(0, 1<<20).Draw(t, "edit-fresh-off")
			ins := Content{{Src: 7, Off: foff, Len: ln}}
			c = Concat(c.Slice(0, off), ins, c.Slice(off, n))
			if intro != nil {
				*intro += ln
			}
		case 2: // delete
			hi := off + ln
			if hi > n {
				hi = n
			}
			c = Concat(c.Slice(0, off), c.Slice(hi, n))
		}
	}
	if c == nil {
		c = Content{}
	}
	return c
}

func genEditOffset(t *rapid.T, n int) int {
	if n == 0 {
		return 0
	}
	switch rapid.IntRange(0, 3).Draw(t, "edit-offkind") {
	case 0: // block starts / ends
		nb := n / BS
		b := rapid.IntRange(0, nb).Draw(t, "edit-block") * BS
		b += rapid.SampledFrom([]int{-1, 0, 1}).Draw(t, "edit-blockdelta")
		if b < 0 {
			b = 0
		}
		if b > n {
			b = n
		}
		return b
	case 1: // near the end
		d := rapid.IntRange(0, 3).Draw(t, "edit-fromend")
		if d > n {
			d = n
		}
		return n - d
	default:
		return rapid.IntRange(0, n).Draw(t, "edit-off")
	}
}

// GenOldTree draws the old build.
func GenOldTree(t *rapid.T, o GenOpts) Tree {
	tr := Tree{}
	max := o.MaxOld
	if max == 0 {
		max = 6
	}
	n := rapid.IntRange(0, max).Draw(t, "nold")
	for i := 0; i < n; i++ {
		p := GenPath(t, "old")
		if !tr.CanAdd(p) {
			continue
		}
		switch rapid.IntRange(0, 9).Draw(t, "old-kind") {
		case 0:
			tr = tr.Add(Entry{Path: p, Kind: KDir})
		case 1:
			tr = tr.Add(Entry{Path: p, Kind: KLink, Dest: GenDest(t)})
		default:
			tr = tr.Add(Entry{Path: p, Kind: KFile, C: GenContent(t, "old", o)})
		}
	}
	return tr
}

func GenDest(t *rapid.T) string {
	// destinations are opaque strings to wharf: also forms that path cleaning would rewrite
	return rapid.SampledFrom([]string{"a", "b", "c", "d", "a/b", "../x", "nowhere",
		"./a", "b/", "a//b", "c/../d", "./b/./c"}).Draw(t, "dest")
}

// place puts entry e at path dst in tr if the generator's validity rules allow
// it; replacing an existing entry of another kind only when kind changes are
// allowed. Returns the tree and whether it was placed.
func place(tr Tree, e Entry, o GenOpts) (Tree, bool) {
	if cur := tr.Get(e.Path); cur != nil {
		if cur.Kind != e.Kind && !o.KindChange {
			return tr, false
		}
		if cur.Kind == KDir && e.Kind == KDir {
			return tr, false
		}
		tr = tr.Remove(e.Path)
	}
	if !tr.CanAdd(e.Path) {
		return tr, false
	}
	return tr.Add(e), true
}

// GenNewTree derives the new build from the old one.
func GenNewTree(t *rapid.T, old Tree, o GenOpts) Tree {
	tr := old.Clone()
	max := o.MaxOps
	if max == 0 {
		max = 8
	}
	nops := rapid.IntRange(0, max).Draw(t, "nops")
	of := old.Files()
	weights := []int{0, 1, 2, 3, 4, 5, 6, 7, 8, 9, 10, 11}
	if o.PathOps {
		weights = append(weights, 1, 2, 2, 8, 8, 10, 10, 1, 2, 8, 10)
	}
	if o.ManyEdits {
		weights = append(weights, 3, 3, 3, 3, 3, 5)
	}
	for i := 0; i < nops; i++ {
		op := rapid.SampledFrom(weights).Draw(t, "op")
		switch op {
		case 0: // remove a subtree
			ps := tr.Paths()
			if len(ps) > 0 {
				tr = tr.Remove(rapid.SampledFrom(ps).Draw(t, "rm"))
			}
		case 1, 2: // copy an old file's content to a path (duplicate / rename)
			if len(of) == 0 {
				continue
			}
			src := rapid.SampledFrom(of).Draw(t, "src")
			dst := GenPath(t, "dst")
			var ok bool
			tr, ok = place(tr, Entry{Path: dst, Kind: KFile, C: Concat(old.Get(src).C)}, o)
			if ok && op == 2 && src != dst {
				if e := tr.Get(src); e != nil && e.Kind == KFile {
					tr = tr.Remove(src)
				}
			}
		case 3: // edit a file in place
			nf := tr.Files()
			if len(nf) == 0 {
				continue
			}
			p := rapid.SampledFrom(nf).Draw(t, "edit")
			k := rapid.IntRange(1, 3).Draw(t, "nedits")
			if o.ManyEdits {
				k = rapid.IntRange(2, 12).Draw(t, "nedits-many")
			}
			e := tr.Get(p)
			e.C = EditContent(t, e.C, k, nil)
		case 4: // block-aligned prefix / suffix of an old file
			if len(of) == 0 {
				continue
			}
			sc := old.Get(rapid.SampledFrom(of).Draw(t, "src")).C
			nb := sc.Len() / BS
			c := Content{}
			if nb > 0 {
				k := rapid.IntRange(0, nb).Draw(t, "k")
				if rapid.Bool().Draw(t, "prefix") {
					c = sc.Slice(0, k*BS)
				} else {
					c = sc.Slice(k*BS, sc.Len())
				}
			}
			if c == nil {
				c = Content{}
			}
			tr, _ = place(tr, Entry{Path: GenPath(t, "dst"), Kind: KFile, C: c}, o)
		case 5: // brand-new file
			tr, _ = place(tr, Entry{Path: GenPath(t, "dst"), Kind: KFile, C: GenContent(t, "new", o)}, o)
		case 6: // symlink add / retarget
			var links []string
			for _, e := range tr {
				if e.Kind == KLink {
					links = append(links, e.Path)
				}
			}
			if len(links) > 0 && rapid.Bool().Draw(t, "retarget-existing-link") {
				// an existing link gets another destination: an unrelated one, or another spelling of the same
				// one (./d, d/, x/../d, doubled slash): a different string that lexical cleaning would equate
				e := tr.Get(rapid.SampledFrom(links).Draw(t, "link"))
				nd := GenDest(t)
				if rapid.Bool().Draw(t, "respell") {
					alt := rapid.SampledFrom([]string{"./" + e.Dest, e.Dest + "/", "x/../" + e.Dest, strings.Replace(e.Dest, "/", "//", 1), strings.TrimPrefix(e.Dest, "./"), strings.TrimSuffix(e.Dest, "/")}).Draw(t, "respelling")
					if alt != "" && alt != e.Dest {
						nd = alt
					}
				}
				e.Dest = nd
				continue
			}
			tr, _ = place(tr, Entry{Path: GenPath(t, "dst"), Kind: KLink, Dest: GenDest(t)}, o)
		case 7: // empty dir
			tr, _ = place(tr, Entry{Path: GenPath(t, "dst"), Kind: KDir}, o)
		case 8: // swap two files
			nf := tr.Files()
			if len(nf) >= 2 {
				a := tr.Get(rapid.SampledFrom(nf).Draw(t, "swap-a"))
				b := tr.Get(rapid.SampledFrom(nf).Draw(t, "swap-b"))
				a.C, b.C = b.C, a.C
			}
		case 9: // concatenation of pieces of two old files
			if len(of) == 0 {
				continue
			}
			a := old.Get(rapid.SampledFrom(of).Draw(t, "cat-a")).C
			b := old.Get(rapid.SampledFrom(of).Draw(t, "cat-b")).C
			c := Concat(a, b)
			if c == nil {
				c = Content{}
			}
			tr, _ = place(tr, Entry{Path: GenPath(t, "dst"), Kind: KFile, C: c}, o)
		case 10: // rename chain: rotate the contents of up to 3 files
			nf := tr.Files()
			if len(nf) >= 2 {
				k := rapid.IntRange(2, 3).Draw(t, "chain-len")
				if k > len(nf) {
					k = len(nf)
				}
				start := rapid.IntRange(0, len(nf)-k).Draw(t, "chain-start")
				first := tr.Get(nf[start]).C
				for j := 0; j < k-1; j++ {
					tr.Get(nf[start+j]).C = tr.Get(nf[start+j+1]).C
				}
				tr.Get(nf[start+k-1]).C = first
				if rapid.Bool().Draw(t, "chain-drop") {
					// chain without cycle: A->B, B->C, A disappears
					tr = tr.Remove(nf[start])
				}
			}
		case 11: // file becomes empty / emptied file grows
			nf := tr.Files()
			if len(nf) == 0 {
				continue
			}
			e := tr.Get(rapid.SampledFrom(nf).Draw(t, "empty"))
			if e.C.Len() == 0 {
				e.C = GenContent(t, "grow", o)
			} else {
				e.C = Content{}
			}
		}
	}
	if !o.KindChange {
		// removals followed by re-creation can still change the kind of a
		// surviving path; drop those subtrees from the new build
		for changed := true; changed; {
			changed = false
			for _, e := range tr {
				if oe := old.Get(e.Path); oe != nil && oe.Kind != e.Kind {
					tr = tr.Remove(e.Path)
					changed = true
					break
				}
			}
		}
	}
	return tr
}

// GenPair draws a build pair.
func GenPair(t *rapid.T, o GenOpts) Pair {
	old := GenOldTree(t, o)
	return Pair{Old: old, New: GenNewTree(t, old, o)}
}

// ---------------------------------------------------------------------------
// independent classifier over the spec

func contentKey(c Content) string {
	b := c.Bytes()
	s := sha1.Sum(b)
	return fmt.Sprintf("%d:%x", len(b), s[:8])
}

func sizeClass(n int) string {
	switch {
	case n == 0:
		return "size:0"
	case n > 8<<20:
		return "size:>8MiB"
	case n > 4<<20:
		return "size:>4MiB"
	case n < BS-1:
		return "size:<1blk"
	case n%BS == 0:
		return "size:=k*64Ki"
	case n%BS == BS-1:
		return "size:k*64Ki-1"
	case n%BS == 1:
		return "size:k*64Ki+1"
	default:
		return "size:other"
	}
}

// HasKindChange reports whether some path survives with another kind.
func (p Pair) HasKindChange() bool {
	for _, n := range p.New {
		if o := p.Old.Get(n.Path); o != nil && o.Kind != n.Kind {
			return true
		}
	}
	return false
}

// Classes computes class tags of a pair from the spec alone.
func (p Pair) Classes() []string {
	set := map[string]bool{}
	oldByKey := map[string][]string{}
	for _, e := range p.Old {
		if e.Kind == KFile {
			k := contentKey(e.C)
			oldByKey[k] = append(oldByKey[k], e.Path)
		}
	}
	newByKey := map[string][]string{}
	for _, e := range p.New {
		if e.Kind == KFile {
			set[sizeClass(e.C.Len())] = true
			k := contentKey(e.C)
			newByKey[k] = append(newByKey[k], e.Path)
		}
	}
	moved := map[string]string{} // new path -> old path it took its content from (different path)
	for _, e := range p.New {
		o := p.Old.Get(e.Path)
		switch {
		case o == nil:
			set["entry:added:"+e.Kind] = true
		case o.Kind != e.Kind:
			set["kindchange:"+o.Kind+"->"+e.Kind] = true
		case e.Kind == KLink && o.Dest != e.Dest:
			set["symlink:retarget"] = true
		}
		if e.Kind != KFile || e.C.Len() == 0 {
			continue
		}
		k := contentKey(e.C)
		if o != nil && o.Kind == KFile && contentKey(o.C) == k {
			set["file:unchanged"] = true
			continue
		}
		if n := e.C.Len(); n%BS == 0 {
			for _, oe := range p.Old {
				if oe.Kind == KFile && oe.C.Len() > n && contentKey(oe.C.Slice(0, n)) == k {
					set["rel:aligned-prefix-of-larger-old"] = true
				}
			}
		}
		if srcs := oldByKey[k]; len(srcs) > 0 {
			moved[e.Path] = srcs[0]
			stillThere := false
			for _, s := range srcs {
				if n := p.New.Get(s); n != nil && n.Kind == KFile && contentKey(n.C) == k {
					stillThere = true
				}
			}
			if stillThere {
				set["rel:duplicate-keeping-original"] = true
			} else {
				set["rel:rename-or-dup-without-original"] = true
			}
			if len(newByKey[k]) > 1 {
				set["rel:duplicated-to-several-paths"] = true
			}
		} else if o != nil && o.Kind == KFile {
			set["file:patched"] = true
		} else {
			set["file:new-path"] = true
		}
	}
	for np, op := range moved {
		if back, ok := moved[op]; ok {
			if back == np {
				set["rel:swap"] = true
			} else {
				set["rel:chain"] = true
			}
		}
		// source of a rename that is itself patched
		if n := p.New.Get(op); n != nil && n.Kind == KFile && moved[op] == "" && contentKey(n.C) != contentKey(p.Old.Get(op).C) {
			set["rel:source-of-rename-also-patched"] = true
		}
	}
	for _, e := range p.Old {
		n := p.New.Get(e.Path)
		if n == nil {
			set["entry:removed:"+e.Kind] = true
		}
		if e.Kind == KFile && n != nil && n.Kind == KFile {
			if e.C.Len() > 0 && n.C.Len() == 0 {
				set["file:becomes-empty"] = true
			}
			if e.C.Len() < n.C.Len() {
				set["file:grows"] = true
			}
			if e.C.Len() > n.C.Len() {
				set["file:shrinks"] = true
			}
		}
	}
	// two old files sharing a block
	blocks := map[string]string{}
	for _, e := range p.Old {
		if e.Kind != KFile {
			continue
		}
		b := e.C.Bytes()
		for i := 0; i+BS <= len(b); i += BS {
			s := sha1.Sum(b[i : i+BS])
			k := string(s[:8])
			if other, ok := blocks[k]; ok && other != e.Path {
				set["old:two-files-share-a-block"] = true
			}
			blocks[k] = e.Path
		}
	}
	if len(p.New) == 0 {
		set["new:empty-build"] = true
	}
	if len(p.Old) == 0 {
		set["old:empty-build"] = true
	}
	var out []string
	for k := range set {
		out = append(out, k)
	}
	sort.Strings(out)
	return out
}
