package h

import (
	"bytes"
	"fmt"
	"os"
	"path/filepath"
	"sort"
	"strings"
	"syscall"
)

// Entry kinds.
const (
	KFile = "f"
	KDir  = "d"
	KLink = "l"
)

// Entry is one path of a tree spec.
type Entry struct {
	Path string  `json:"p"`
	Kind string  `json:"k"`
	C    Content `json:"c,omitempty"`
	Dest string  `json:"dest,omitempty"`
	Mode uint32  `json:"mode,omitempty"` // 0 = 0644 / 0755
}

// Tree is a set of entries, kept sorted by path. Parents of every entry are
// present as directories.
type Tree []Entry

func (t Tree) index() map[string]int {
	m := make(map[string]int, len(t))
	for i, e := range t {
		m[e.Path] = i
	}
	return m
}

func (t Tree) Get(p string) *Entry {
	for i := range t {
		if t[i].Path == p {
			return &t[i]
		}
	}
	return nil
}

func (t Tree) Clone() Tree {
	out := make(Tree, len(t))
	copy(out, t)
	for i := range out {
		out[i].C = Concat(out[i].C)
	}
	return out
}

func (t Tree) sorted() Tree {
	sort.Slice(t, func(i, j int) bool { return t[i].Path < t[j].Path })
	return t
}

// CanAdd reports whether an entry can be created at p (p absent, all existing
// ancestors are directories).
func (t Tree) CanAdd(p string) bool {
	if t.Get(p) != nil {
		return false
	}
	parts := strings.Split(p, "/")
	for i := 1; i < len(parts); i++ {
		if e := t.Get(strings.Join(parts[:i], "/")); e != nil && e.Kind != KDir {
			return false
		}
	}
	return true
}

// Add inserts e (and missing parent directories).
func (t Tree) Add(e Entry) Tree {
	parts := strings.Split(e.Path, "/")
	for i := 1; i < len(parts); i++ {
		anc := strings.Join(parts[:i], "/")
		if t.Get(anc) == nil {
			t = append(t, Entry{Path: anc, Kind: KDir})
		}
	}
	t = append(t, e)
	return t.sorted()
}

// Remove deletes p and everything below it.
func (t Tree) Remove(p string) Tree {
	var out Tree
	for _, e := range t {
		if e.Path == p || strings.HasPrefix(e.Path, p+"/") {
			continue
		}
		out = append(out, e)
	}
	return out
}

func (t Tree) Files() []string {
	var fs []string
	for _, e := range t {
		if e.Kind == KFile {
			fs = append(fs, e.Path)
		}
	}
	return fs
}

func (t Tree) Paths() []string {
	var fs []string
	for _, e := range t {
		fs = append(fs, e.Path)
	}
	return fs
}

func (t Tree) TotalSize() int {
	n := 0
	for _, e := range t {
		if e.Kind == KFile {
			n += e.C.Len()
		}
	}
	return n
}

// Write materialises the tree under dir (created).
func (t Tree) Write(dir string) error {
	if err := os.MkdirAll(dir, 0o755); err != nil {
		return err
	}
	s := t.Clone().sorted()
	for _, e := range s {
		fp := filepath.Join(dir, filepath.FromSlash(e.Path))
		if err := os.MkdirAll(filepath.Dir(fp), 0o755); err != nil {
			return err
		}
		switch e.Kind {
		case KDir:
			if err := os.MkdirAll(fp, 0o755); err != nil {
				return err
			}
		case KLink:
			if err := os.Symlink(e.Dest, fp); err != nil {
				return err
			}
		case KFile:
			mode := os.FileMode(0o644)
			if e.Mode != 0 {
				mode = os.FileMode(e.Mode)
			}
			if err := os.WriteFile(fp, e.C.Bytes(), mode); err != nil {
				return err
			}
		}
	}
	return nil
}

// ---------------------------------------------------------------------------
// independent tree reader / comparer (does not use tlc)

type Node struct {
	Kind  string
	Data  []byte
	Dest  string
	Mode  os.FileMode
	Ino   uint64
	Mtime int64
	Size  int64
}

type Disk map[string]*Node

// ReadDisk walks dir with Lstat/Readlink/ReadFile.
func ReadDisk(dir string) (Disk, error) {
	d := Disk{}
	err := filepath.Walk(dir, func(p string, info os.FileInfo, err error) error {
		if err != nil {
			return err
		}
		rel, _ := filepath.Rel(dir, p)
		if rel == "." {
			return nil
		}
		rel = filepath.ToSlash(rel)
		n := &Node{Mode: info.Mode(), Mtime: info.ModTime().UnixNano(), Size: info.Size()}
		if st, ok := info.Sys().(*syscall.Stat_t); ok {
			n.Ino = st.Ino
		}
		switch {
		case info.IsDir():
			n.Kind = KDir
		case info.Mode()&os.ModeSymlink != 0:
			n.Kind = KLink
			n.Dest, err = os.Readlink(p)
			if err != nil {
				return err
			}
		default:
			n.Kind = KFile
			n.Data, err = os.ReadFile(p)
			if err != nil {
				return err
			}
		}
		d[rel] = n
		return nil
	})
	return d, err
}

func (d Disk) Paths() []string {
	var ps []string
	for p := range d {
		ps = append(ps, p)
	}
	sort.Strings(ps)
	return ps
}

// Expect turns a tree spec into the Disk it should produce.
func (t Tree) Expect() Disk {
	d := Disk{}
	for _, e := range t {
		n := &Node{Kind: e.Kind, Dest: e.Dest}
		if e.Kind == KFile {
			n.Data = e.C.Bytes()
		}
		d[e.Path] = n
	}
	return d
}

// DiffDisk compares want and got: same path set, kinds, bytes, destinations.
// extrasOK allows entries in got that are not in want.
func DiffDisk(want, got Disk, extrasOK bool) string {
	for _, p := range want.Paths() {
		w := want[p]
		g, ok := got[p]
		if !ok {
			return "missing " + p
		}
		if w.Kind != g.Kind {
			return fmt.Sprintf("kind of %s: want %s got %s", p, w.Kind, g.Kind)
		}
		if w.Kind == KLink && w.Dest != g.Dest {
			return fmt.Sprintf("dest of %s: want %q got %q", p, w.Dest, g.Dest)
		}
		if w.Kind == KFile && !bytes.Equal(w.Data, g.Data) {
			return fmt.Sprintf("content of %s differs (want %d bytes, got %d, first difference at %d)", p, len(w.Data), len(g.Data), firstDiff(w.Data, g.Data))
		}
	}
	if !extrasOK {
		for _, p := range got.Paths() {
			if _, ok := want[p]; !ok {
				return "extra " + p
			}
		}
	}
	return ""
}

// FirstDiff is the index of the first differing byte (the shorter length when one is a prefix).
func FirstDiff(a, b []byte) int { return firstDiff(a, b) }

func firstDiff(a, b []byte) int {
	n := len(a)
	if len(b) < n {
		n = len(b)
	}
	for i := 0; i < n; i++ {
		if a[i] != b[i] {
			return i
		}
	}
	return n
}

// DiffStrong compares two snapshots of the same directory taken at different
// times: besides content it compares inode, mtime, size and mode, i.e. "was
// not modified at all".
func DiffStrong(before, after Disk) string {
	if s := DiffDisk(before, after, false); s != "" {
		return s
	}
	for _, p := range before.Paths() {
		b, a := before[p], after[p]
		if b.Ino != a.Ino {
			return "inode of " + p + " changed"
		}
		if b.Mode != a.Mode {
			return fmt.Sprintf("mode of %s changed %v -> %v", p, b.Mode, a.Mode)
		}
		if b.Mtime != a.Mtime {
			return "mtime of " + p + " changed"
		}
		if b.Kind == KFile && b.Size != a.Size {
			return "size of " + p + " changed"
		}
	}
	return ""
}

// CheckDir compares a directory on disk with a tree spec.
func CheckDir(dir string, want Tree, extrasOK bool) string {
	got, err := ReadDisk(dir)
	if err != nil {
		return "cannot read " + dir + ": " + err.Error()
	}
	return DiffDisk(want.Expect(), got, extrasOK)
}
