package h

import (
	"bytes"
	"context"
	"encoding/gob"
	"fmt"
	"io"
	"os"

	"github.com/itchio/headway/state"
	"github.com/itchio/lake"
	"github.com/itchio/lake/pools"
	"github.com/itchio/lake/pools/fspool"
	"github.com/itchio/lake/tlc"
	"github.com/itchio/savior"
	"github.com/itchio/savior/seeksource"
	"github.com/itchio/wharf/pwr"
	"github.com/itchio/wharf/pwr/bowl"
	"github.com/itchio/wharf/pwr/patcher"
	"github.com/itchio/wharf/pwr/rediff"
	"github.com/itchio/wharf/wsync"
	"github.com/pkg/errors"

	_ "github.com/itchio/wharf/compressors/cbrotli"
	_ "github.com/itchio/wharf/compressors/gzip"
	_ "github.com/itchio/wharf/decompressors/cbrotli"
	_ "github.com/itchio/wharf/decompressors/gzip"
)

// Comp is a serialisable compression setting. Algo: 0 none, 1 brotli, 2 gzip.
type Comp struct {
	Algo int `json:"algo"`
	Q    int `json:"q"`
}

func (c Comp) Settings() *pwr.CompressionSettings {
	return &pwr.CompressionSettings{Algorithm: pwr.CompressionAlgorithm(c.Algo), Quality: int32(c.Q)}
}

func (c Comp) String() string {
	return fmt.Sprintf("%s-q%d", pwr.CompressionAlgorithm(c.Algo).String(), c.Q)
}

func Quiet() *state.Consumer { return &state.Consumer{} }

// Walk builds a container the way butler does.
func Walk(dir string) (*tlc.Container, error) {
	return tlc.WalkAny(dir, tlc.WalkOpts{})
}

// poolOf opens the pool over a build the way butler does: pools.New tells a directory from a single-file build
// (and a zip).
func poolOf(c *tlc.Container, path string) (lake.Pool, error) {
	return pools.New(c, path)
}

// Sign computes the stand-alone signature of dir.
func Sign(dir string) (*tlc.Container, []wsync.BlockHash, error) {
	c, err := Walk(dir)
	if err != nil {
		return nil, nil, err
	}
	pool, err := poolOf(c, dir)
	if err != nil {
		return nil, nil, err
	}
	hs, err := pwr.ComputeSignature(context.Background(), c, pool, Quiet())
	return c, hs, err
}

// SignatureOf returns the signature of dir: computed directly, or (stream) read back with
// pwr.ReadSignature from the signature stream that a diff "nothing -> dir" writes - what butler
// validates and heals against.
func SignatureOf(dir string, stream bool) (*pwr.SignatureInfo, error) {
	if !stream {
		c, hs, err := Sign(dir)
		if err != nil {
			return nil, err
		}
		return &pwr.SignatureInfo{Container: c, Hashes: hs}, nil
	}
	ed := TempDir("empty")
	defer os.RemoveAll(ed)
	df, err := Diff(ed, dir, Comp{}, nil)
	if err != nil {
		return nil, err
	}
	return ReadSig(df.Sig)
}

// SignWith is Sign with the pool wrapped (e.g. by a jittering pool).
func SignWith(dir string, wrap func(lake.Pool) lake.Pool) (*tlc.Container, []wsync.BlockHash, error) {
	c, err := Walk(dir)
	if err != nil {
		return nil, nil, err
	}
	pool, err := poolOf(c, dir)
	if err != nil {
		return nil, nil, err
	}
	if wrap != nil {
		pool = wrap(pool)
	}
	hs, err := pwr.ComputeSignature(context.Background(), c, pool, Quiet())
	return c, hs, err
}

// DiffOut is the result of a diff.
type DiffOut struct {
	Patch2, Sig2                   []byte
	Fresh, Reused, Fresh2, Reused2 int64
	Patch, Sig                     []byte
	Ctx                            *pwr.DiffContext
	Old, New                       *tlc.Container
}

// DiffOpts lets a check wrap the source pool / writers.
type DiffOpts struct {
	// TargetSig, when set, is a signature stream describing the old build (as written by the diff that
	// released it); it is read back with pwr.ReadSignature and used instead of signing oldDir directly -
	// the way butler diffs against a downloaded signature.
	TargetSig []byte
	// Again: WritePatch is called a second time on the same DiffContext (a retry on a new writer, the same
	// diff emitted once more); DiffOut.Patch2/Sig2 and the counters' deltas Fresh2/Reused2 describe that call.
	Again bool
	// UsedBefore: the DiffContext is not new: it has just written a patch for another pair (the new build
	// against ITSELF as the old build), then its exported target fields are set to the real old build
	UsedBefore bool
	// ReverseDirs: the directory lists of both containers are reversed (children before parents): a container
	// walked from a zip lists its directories in map order, a hand-built one in any order
	ReverseDirs bool
	WrapPool    func(lake.Pool) lake.Pool
	PatchWriter func(io.Writer) io.Writer
	SigWriter   func(io.Writer) io.Writer
}

// Diff diffs oldDir -> newDir exactly like butler/wharf's tests: walk both,
// sign old, WritePatch.
func Diff(oldDir, newDir string, comp Comp, opts *DiffOpts) (*DiffOut, error) {
	var tc *tlc.Container
	var th []wsync.BlockHash
	var err error
	if opts != nil && opts.TargetSig != nil {
		si, err := ReadSig(opts.TargetSig)
		if err != nil {
			return nil, fmt.Errorf("read old signature: %w", err)
		}
		tc, th = si.Container, si.Hashes
	} else {
		tc, th, err = Sign(oldDir)
		if err != nil {
			return nil, fmt.Errorf("sign old: %w", err)
		}
	}
	sc, err := Walk(newDir)
	if err != nil {
		return nil, fmt.Errorf("walk new: %w", err)
	}
	if opts != nil && opts.ReverseDirs {
		for _, c := range []*tlc.Container{tc, sc} {
			for i, j := 0, len(c.Dirs)-1; i < j; i, j = i+1, j-1 {
				c.Dirs[i], c.Dirs[j] = c.Dirs[j], c.Dirs[i]
			}
		}
	}
	pool, err := poolOf(sc, newDir)
	if err != nil {
		return nil, fmt.Errorf("open new build: %w", err)
	}
	if opts != nil && opts.WrapPool != nil {
		pool = opts.WrapPool(pool)
	}
	dctx := &pwr.DiffContext{
		Compression:     comp.Settings(),
		Consumer:        Quiet(),
		SourceContainer: sc,
		Pool:            pool,
		TargetContainer: tc,
		TargetSignature: th,
	}
	pb, sb := new(bytes.Buffer), new(bytes.Buffer)
	var pw, sw io.Writer = pb, sb
	if opts != nil && opts.PatchWriter != nil {
		pw = opts.PatchWriter(pb)
	}
	if opts != nil && opts.SigWriter != nil {
		sw = opts.SigWriter(sb)
	}
	if opts != nil && opts.UsedBefore {
		sc2, sh2, err := Sign(newDir)
		if err != nil {
			return nil, fmt.Errorf("sign new: %w", err)
		}
		dctx.TargetContainer, dctx.TargetSignature = sc2, sh2
		if err := dctx.WritePatch(context.Background(), io.Discard, io.Discard); err != nil {
			return nil, fmt.Errorf("WritePatch (earlier use of the context, new build against itself): %w", err)
		}
		dctx.TargetContainer, dctx.TargetSignature = tc, th
		dctx.FreshBytes, dctx.ReusedBytes = 0, 0
	}
	if err := dctx.WritePatch(context.Background(), pw, sw); err != nil {
		return nil, fmt.Errorf("WritePatch: %w", err)
	}
	out := &DiffOut{Patch: pb.Bytes(), Sig: sb.Bytes(), Ctx: dctx, Old: tc, New: sc, Fresh: dctx.FreshBytes, Reused: dctx.ReusedBytes}
	if opts != nil && opts.Again {
		pb2, sb2 := new(bytes.Buffer), new(bytes.Buffer)
		if err := dctx.WritePatch(context.Background(), pb2, sb2); err != nil {
			return nil, fmt.Errorf("second WritePatch on the same DiffContext: %w", err)
		}
		out.Patch2, out.Sig2 = pb2.Bytes(), sb2.Bytes()
		out.Fresh2, out.Reused2 = dctx.FreshBytes-out.Fresh, dctx.ReusedBytes-out.Reused
	}
	return out, nil
}

func Source(b []byte) savior.SeekSource { return seeksource.FromBytes(b) }

// ApplyOpts parametrises an application.
type ApplyOpts struct {
	WrapPool  func(lake.Pool) lake.Pool // e.g. safekeeper, recording pool
	WrapBowl  func(bowl.Bowl) bowl.Bowl
	Whitelist map[int64]bool
	PreCommit func() string // called after Resume, before Commit; non-empty = oracle failure
	Touched   *int64
	// FirstPass (in-place only): before the full application, another patcher applies the same patch with
	// this whitelist onto the SAME bowl object (Bowl.Resume(nil) keeps what is recorded); files handled by
	// both passes are recorded twice and the bowl's work lists must stay free of duplicates
	FirstPass map[int64]bool
	// Peek > 0: the old-build pool is not handed over fresh: Peek bytes (or everything) of old file PeekIdx
	// (modulo the number of files) have been read through GetReadSeeker before the application starts
	Peek, PeekIdx int
	// StopAt > 0 (ApplyFresh): the application stops at its StopAt-th checkpoint (if it is offered that many)
	// and is resumed from the gob copy of that checkpoint by a brand-new patcher and fresh bowl - with the SAME
	// old-build pool object, which the first session's Resume has closed on its way out
	StopAt int
}

type stopAtConsumer struct {
	n, at int
	ck    []byte
}

func (c *stopAtConsumer) ShouldSave() bool { return true }
func (c *stopAtConsumer) Save(ck *patcher.Checkpoint) (patcher.AfterSaveAction, error) {
	c.n++
	if c.n == c.at {
		b := new(bytes.Buffer)
		if err := gob.NewEncoder(b).Encode(ck); err != nil {
			return patcher.AfterSaveStop, err
		}
		c.ck = b.Bytes()
		return patcher.AfterSaveStop, nil
	}
	return patcher.AfterSaveContinue, nil
}

type PreCommitError struct{ Msg string }

func (e *PreCommitError) Error() string { return e.Msg }

// ApplyFresh applies patch to oldDir into outDir with a fresh bowl (as
// pwr/patcher.PatchFresh does).
func ApplyFresh(patch []byte, oldDir, outDir string, o *ApplyOpts) error {
	if o == nil {
		o = &ApplyOpts{}
	}
	p, err := patcher.New(Source(patch), Quiet())
	if err != nil {
		return fmt.Errorf("patcher.New: %w", err)
	}
	var tp lake.Pool = fspool.New(p.GetTargetContainer(), oldDir)
	if o.WrapPool != nil {
		tp = o.WrapPool(tp)
	}
	if o.Peek > 0 {
		peekPool(tp, len(p.GetTargetContainer().Files), o.PeekIdx, o.Peek)
	}
	var b bowl.Bowl
	b, err = bowl.NewFreshBowl(bowl.FreshBowlParams{
		SourceContainer: p.GetSourceContainer(),
		TargetContainer: p.GetTargetContainer(),
		TargetPool:      tp,
		OutputFolder:    outDir,
	})
	if err != nil {
		return fmt.Errorf("NewFreshBowl: %w", err)
	}
	if o.WrapBowl != nil {
		b = o.WrapBowl(b)
	}
	defer b.Close()
	if o.Whitelist != nil {
		p.SetSourceIndexWhitelist(o.Whitelist)
	}
	var sc *stopAtConsumer
	if o.StopAt > 0 {
		sc = &stopAtConsumer{at: o.StopAt}
		p.SetSaveConsumer(sc)
	}
	err = p.Resume(nil, tp, b)
	if sc != nil && errors.Cause(err) == patcher.ErrStop && sc.ck != nil {
		// second session: new patcher, new bowl, same pool
		b.Close()
		ck := &patcher.Checkpoint{}
		if err := gob.NewDecoder(bytes.NewReader(sc.ck)).Decode(ck); err != nil {
			return fmt.Errorf("checkpoint does not survive gob: %w", err)
		}
		p, err = patcher.New(Source(patch), Quiet())
		if err != nil {
			return fmt.Errorf("patcher.New: %w", err)
		}
		b, err = bowl.NewFreshBowl(bowl.FreshBowlParams{SourceContainer: p.GetSourceContainer(), TargetContainer: p.GetTargetContainer(), TargetPool: tp, OutputFolder: outDir})
		if err != nil {
			return fmt.Errorf("NewFreshBowl (second session): %w", err)
		}
		defer b.Close()
		err = p.Resume(ck, tp, b)
	}
	if err != nil {
		return fmt.Errorf("Resume: %w", err)
	}
	if o.Touched != nil {
		*o.Touched = p.GetTouchedFiles()
	}
	if o.PreCommit != nil {
		if m := o.PreCommit(); m != "" {
			return &PreCommitError{m}
		}
	}
	if err := b.Commit(); err != nil {
		return fmt.Errorf("Commit: %w", err)
	}
	return nil
}

// ApplyInPlace applies patch onto dir through an overlay bowl staging in stage.
func ApplyInPlace(patch []byte, dir, stage string, o *ApplyOpts) error {
	if o == nil {
		o = &ApplyOpts{}
	}
	p, err := patcher.New(Source(patch), Quiet())
	if err != nil {
		return fmt.Errorf("patcher.New: %w", err)
	}
	var tp lake.Pool = fspool.New(p.GetTargetContainer(), dir)
	if o.WrapPool != nil {
		tp = o.WrapPool(tp)
	}
	var b bowl.Bowl
	b, err = bowl.NewOverlayBowl(bowl.OverlayBowlParams{
		SourceContainer: p.GetSourceContainer(),
		TargetContainer: p.GetTargetContainer(),
		StageFolder:     stage,
		OutputFolder:    dir,
		Consumer:        Quiet(),
	})
	if err != nil {
		return fmt.Errorf("NewOverlayBowl: %w", err)
	}
	if o.WrapBowl != nil {
		b = o.WrapBowl(b)
	}
	defer b.Close()
	if o.FirstPass != nil {
		p1, err := patcher.New(Source(patch), Quiet())
		if err != nil {
			return fmt.Errorf("patcher.New (first pass): %w", err)
		}
		p1.SetSourceIndexWhitelist(o.FirstPass)
		if err := p1.Resume(nil, fspool.New(p1.GetTargetContainer(), dir), b); err != nil {
			return fmt.Errorf("Resume (first pass, whitelist): %w", err)
		}
	}
	if err := p.Resume(nil, tp, b); err != nil {
		return fmt.Errorf("Resume: %w", err)
	}
	if o.PreCommit != nil {
		if m := o.PreCommit(); m != "" {
			return &PreCommitError{m}
		}
	}
	if err := b.Commit(); err != nil {
		return fmt.Errorf("Commit: %w", err)
	}
	return nil
}

// OptParams are the optimiser's tuning parameters.
type OptParams struct {
	Partitions      int   `json:"parts"`
	Concurrency     int   `json:"conc"`
	ForceMapAll     bool  `json:"force,omitempty"`
	RediffSizeLimit int64 `json:"limit,omitempty"`
	Comp            Comp  `json:"comp"`
	// Peek > 0: the pools are not handed over fresh - the caller has read Peek bytes (or to the end) of file
	// PeekOld of the old build and PeekNew of the new build through GetReadSeeker before (indices modulo the
	// number of files). lake.Pool makes no promise about the position of a seeker it hands out again.
	Peek    int `json:"peek,omitempty"`
	PeekOld int `json:"peek_old,omitempty"`
	PeekNew int `json:"peek_new,omitempty"`
}

func peekPool(p lake.Pool, nfiles int, idx, n int) {
	if nfiles == 0 {
		return
	}
	rs, err := p.GetReadSeeker(int64(idx % nfiles))
	if err != nil {
		return
	}
	io.CopyN(io.Discard, rs, int64(n))
}

// Optimize rewrites patch with rediff.
func Optimize(patch []byte, oldDir, newDir string, op OptParams) ([]byte, error) {
	rc, err := rediff.NewContext(rediff.Params{
		PatchReader:           Source(patch),
		Consumer:              Quiet(),
		Compression:           op.Comp.Settings(),
		Partitions:            op.Partitions,
		SuffixSortConcurrency: op.Concurrency,
		ForceMapAll:           op.ForceMapAll,
		RediffSizeLimit:       op.RediffSizeLimit,
	})
	if err != nil {
		return nil, fmt.Errorf("rediff.NewContext: %w", err)
	}
	ob := new(bytes.Buffer)
	var tpool, spool lake.Pool = fspool.New(rc.GetTargetContainer(), oldDir), fspool.New(rc.GetSourceContainer(), newDir)
	if op.Peek > 0 {
		peekPool(tpool, len(rc.GetTargetContainer().Files), op.PeekOld, op.Peek)
		peekPool(spool, len(rc.GetSourceContainer().Files), op.PeekNew, op.Peek)
	}
	err = rc.Optimize(rediff.OptimizeParams{
		TargetPool:  tpool,
		SourcePool:  spool,
		PatchWriter: ob,
	})
	if err != nil {
		return nil, fmt.Errorf("Optimize: %w", err)
	}
	return ob.Bytes(), nil
}

// ReadSig parses a signature stream.
func ReadSig(sig []byte) (*pwr.SignatureInfo, error) {
	src := Source(sig)
	if _, err := src.Resume(nil); err != nil {
		return nil, err
	}
	return pwr.ReadSignature(context.Background(), src)
}

// SafeKeeperWrap returns a pool wrapper that validates reads against sig.
func SafeKeeperWrap(sig []byte) func(lake.Pool) lake.Pool { return safeKeeperWrap(sig, false) }

// SafeKeeperWrapOnce is SafeKeeperWrap with a signature that can be fetched only once (an already open
// download, a temporary file removed after loading): a second Open fails.
func SafeKeeperWrapOnce(sig []byte) func(lake.Pool) lake.Pool { return safeKeeperWrap(sig, true) }

func safeKeeperWrap(sig []byte, once bool) func(lake.Pool) lake.Pool {
	return func(p lake.Pool) lake.Pool {
		opened := 0
		sk, err := pwr.NewSafeKeeper(pwr.SafeKeeperParams{
			Inner: p,
			Open: func() (savior.SeekSource, error) {
				opened++
				if once && opened > 1 {
					return nil, fmt.Errorf("the signature could be fetched once only; this is request %d", opened)
				}
				s := Source(sig)
				_, err := s.Resume(nil)
				return s, err
			},
		})
		if err != nil {
			panic(err)
		}
		return sk
	}
}
